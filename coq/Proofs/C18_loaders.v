(* Proofs/C18_loaders.v — load_csv / group_rows / load_scottish / py_slice / to_csv_rows
   (Model/Loaders.v) against the vocabulary of Spec/LoaderSpec.v. *)
From VK Require Import Base Core Loaders EditSpec LoaderSpec C11_profile Lib_rk Lib_condense12.
From Coq Require Import Lia Lqa Permutation Setoid Morphisms.

#[local] Arguments CBlank {cand}.
#[local] Arguments CStr {cand}.
#[local] Arguments CNum {cand}.
#[local] Arguments CId {cand}.
#[local] Arguments TEmpty {cand}.
#[local] Arguments TNum {cand}.
#[local] Arguments TStr {cand}.

(* ---------- generic list facts ---------- *)

Lemma skipn_length_app : forall (A : Type) (l1 l2 : list A), skipn (length l1) (l1 ++ l2) = l2.
Proof. intros A l1 l2. induction l1 as [|a l1 IH]; cbn [length app skipn]; [reflexivity|exact IH]. Qed.

Lemma firstn_length_app : forall (A : Type) (l1 l2 : list A), firstn (length l1) (l1 ++ l2) = l1.
Proof.
  intros A l1 l2. induction l1 as [|a l1 IH]; cbn [length app firstn].
  - destruct l2; reflexivity.
  - rewrite IH. reflexivity.
Qed.

Lemma rmap_err_in : forall (A B : Type) (f : A -> res B) (l : list A) (e : exn),
  rmap f l = inr e -> exists a, In a l /\ f a = inr e.
Proof.
  intros A B f l e H. apply rmap_err_inv in H. destruct H as (l1 & a & l2 & -> & Ha & _).
  exists a. split; [apply in_or_app; right; left; reflexivity|exact Ha].
Qed.

Lemma rmap_map_total : forall (A B C : Type) (f : B -> res C) (g : A -> B) (h : A -> C) (l : list A),
  (forall a, In a l -> f (g a) = inl (h a)) -> rmap f (map g l) = inl (map h l).
Proof.
  intros A B C f g h l. induction l as [|a l IH]; intros H; cbn [rmap map].
  - reflexivity.
  - rewrite (H a (or_introl eq_refl)). unfold rbind. rewrite IH; [reflexivity|].
    intros b Hb. apply H. right. exact Hb.
Qed.

Lemma fold_left_inv : forall (A B : Type) (f : A -> B -> A) (I : A -> list B -> Prop) (P : B -> Prop),
  (forall acc done x, P x -> Forall P done -> I acc done -> I (f acc x) (done ++ [x])) ->
  forall l done acc, Forall P l -> Forall P done -> I acc done -> I (fold_left f l acc) (done ++ l).
Proof.
  intros A B f I P Hstep l. induction l as [|x l IH]; intros done acc Hl Hd Hacc; cbn [fold_left].
  - rewrite app_nil_r. exact Hacc.
  - inversion Hl as [|y l' Hx Hl']; subst.
    replace (done ++ x :: l) with ((done ++ [x]) ++ l) by (rewrite <- app_assoc; reflexivity).
    apply IH; [exact Hl'| |apply Hstep; assumption].
    apply Forall_app. split; [exact Hd|constructor; [exact Hx|constructor]].
Qed.

Lemma NoDup_map_inj_in : forall (A B : Type) (f : A -> B) (l : list A),
  (forall a b, In a l -> In b l -> f a = f b -> a = b) -> NoDup l -> NoDup (map f l).
Proof.
  intros A B f l Hinj Hnd. induction Hnd as [|a l Hnotin Hnd IH]; cbn [map].
  - constructor.
  - constructor.
    + intros Hin. apply in_map_iff in Hin. destruct Hin as (b & Hfb & Hb).
      assert (b = a) by (apply Hinj; [right; exact Hb|left; reflexivity|exact Hfb]).
      subst b. contradiction.
    + apply IH. intros x y Hx Hy. apply Hinj; right; assumption.
Qed.

(* indicator sum: exactly one element of a duplicate-free list matches *)
Lemma qsum_one_hot : forall (A : Type) (t : A -> bool) (x : A) (q : Q) (l : list A),
  NoDup l -> In x l -> (forall k, In k l -> (t k = true <-> k = x)) ->
  qsum (map (fun k => if t k then q else 0) l) == q.
Proof.
  intros A t x q l Hnd. induction Hnd as [|a l Hnotin Hnd IH]; intros Hin Ht.
  - destruct Hin.
  - cbn [map]. rewrite qsum_cons. destruct Hin as [->|Hin].
    + rewrite (proj2 (Ht x (or_introl eq_refl)) eq_refl).
      rewrite (qsum_map_ext_eq _ _ (fun _ => 0)).
      * rewrite qsum_map_const. ring.
      * intros k Hk. destruct (t k) eqn:E; [|reflexivity].
        apply Ht in E; [|right; exact Hk]. subst k. contradiction.
    + destruct (t a) eqn:E.
      * apply Ht in E; [|left; reflexivity]. subst a. contradiction.
      * rewrite IH; [ring|exact Hin|]. intros k Hk. apply Ht. right. exact Hk.
Qed.

(* ---------- py_slice ---------- *)

Lemma py_norm_id : forall n i, (0 <= i <= n)%Z -> py_norm n i = i.
Proof.
  intros n i H. unfold py_norm.
  destruct (i <? 0)%Z eqn:E1; [apply Z.ltb_lt in E1; lia|].
  rewrite E1. destruct (n <? i)%Z eqn:E2; [apply Z.ltb_lt in E2; lia|reflexivity].
Qed.

Lemma py_norm_neg : forall n i, (i < 0)%Z -> (0 <= n + i)%Z -> py_norm n i = (n + i)%Z.
Proof.
  intros n i H1 H2. unfold py_norm.
  destruct (i <? 0)%Z eqn:E1; [|apply Z.ltb_ge in E1; lia].
  destruct (n + i <? 0)%Z eqn:E2; [apply Z.ltb_lt in E2; lia|].
  destruct (n <? n + i)%Z eqn:E3; [apply Z.ltb_lt in E3; lia|reflexivity].
Qed.

Theorem py_slice_range : forall (A : Type) (l : list A) (a b : Z),
  (0 <= a)%Z -> (a <= b)%Z -> (b <= Z.of_nat (length l))%Z ->
  py_slice l a b = firstn (Z.to_nat (b - a)) (skipn (Z.to_nat a) l).
Proof.
  intros A l a b H1 H2 H3. unfold py_slice. cbv zeta.
  rewrite (py_norm_id _ a); [|lia]. rewrite (py_norm_id _ b); [|lia]. reflexivity.
Qed.

Theorem py_slice_to_last : forall (A : Type) (l : list A) (a : Z),
  l <> [] -> (0 <= a)%Z -> (a <= Z.of_nat (length l) - 1)%Z ->
  py_slice l a (-1) = firstn (Z.to_nat (Z.of_nat (length l) - 1 - a)) (skipn (Z.to_nat a) l).
Proof.
  intros A l a Hl H1 H2. unfold py_slice. cbv zeta. assert (Hlen : (1 <= Z.of_nat (length l))%Z) by (destruct l; [contradiction|cbn [length]; lia]).
  rewrite (py_norm_id _ a); [|lia]. rewrite py_norm_neg; [|lia|lia].
  replace (Z.of_nat (length l) + -1 - a)%Z with (Z.of_nat (length l) - 1 - a)%Z by lia.
  reflexivity.
Qed.

(* a slice in nat terms: l = pre ++ mid ++ post *)
Lemma py_slice_mid : forall (A : Type) (pre mid post : list A),
  py_slice (pre ++ mid ++ post) (Z.of_nat (length pre)) (Z.of_nat (length pre + length mid)) = mid.
Proof.
  intros A pre mid post. rewrite py_slice_range.
  - rewrite Nat2Z.id. rewrite skipn_length_app.
    replace (Z.to_nat (Z.of_nat (length pre + length mid) - Z.of_nat (length pre))) with (length mid) by lia.
    apply firstn_length_app.
  - lia.
  - lia.
  - rewrite !app_length. lia.
Qed.

Lemma py_slice_mid_last : forall (A : Type) (pre mid : list A) (x : A),
  py_slice (pre ++ mid ++ [x]) (Z.of_nat (length pre)) (-1) = mid.
Proof.
  intros A pre mid x. rewrite py_slice_to_last.
  - rewrite Nat2Z.id. rewrite skipn_length_app.
    rewrite !app_length. cbn [length].
    replace (Z.to_nat (Z.of_nat (length pre + (length mid + 1)) - 1 - Z.of_nat (length pre))) with (length mid) by lia.
    apply firstn_length_app.
  - destruct pre; [destruct mid|]; discriminate.
  - lia.
  - rewrite !app_length. cbn [length]. lia.
Qed.

Section WithCand.
Variable cand : Type.
Variable ceqb : cand -> cand -> bool.
Hypothesis ceqb_spec : forall a b, reflect (a = b) (ceqb a b).
Variable blank : cand.

Notation cell := (cell cand).
Notation tok := (tok cand).
Notation ranking := (ranking cand).
Notation ballot := (ballot cand).
Notation profile := (profile cand).
Notation cell_eqb := (cell_eqb cand ceqb).
Notation row_eqb := (row_eqb cand ceqb).
Notation nth_cell := (nth_cell cand).
Notation cell_cand := (cell_cand cand blank).
Notation group_rows := (group_rows cand ceqb).
Notation has_dup_cells := (has_dup_cells cand ceqb).
Notation load_csv := (load_csv cand ceqb blank).
Notation load_scottish := (load_scottish cand ceqb).
Notation to_csv_rows := (to_csv_rows cand).
Notation cell_at := (cell_at cand).
Notation pattern := (pattern cand).
Notation cell_name := (cell_name cand blank).
Notation pattern_ranking := (pattern_ranking cand blank).
Notation sel_ranks := (sel_ranks).
Notation rows_with := (rows_with cand ceqb).
Notation num_at := (num_at cand).
Notation id_at := (id_at cand).
Notation rank_cell := (rank_cell cand blank).
Notation wf_table := (wf_table cand blank).
Notation csv_ballot := (csv_ballot cand ceqb blank).
Notation ranking_eqb := (ranking_eqb cand ceqb).
Notation wtof_rk := (wtof_rk cand ceqb).
Notation total_wt := (total_wt cand).
Notation cast_cands := (cast_cands cand ceqb).
Notation mk_profile := (mk_profile cand ceqb).

(* ---------- cells ---------- *)

Definition str_cell (c : cell) : Prop := match c with CBlank | CStr _ => True | _ => False end.

Lemma rank_cell_str : forall c, rank_cell c -> str_cell c.
Proof. intros [|x|q|i] H; cbn in *; auto. Qed.

Lemma cell_eqb_refl : forall c, cell_eqb c c = true.
Proof.
  intros [|x|q|i]; cbn.
  - reflexivity.
  - apply (ceqb_refl cand ceqb ceqb_spec).
  - apply Qeq_bool_iff. reflexivity.
  - apply Pos.eqb_refl.
Qed.

Lemma cell_eqb_str_eq : forall a b, str_cell a -> cell_eqb a b = true -> a = b.
Proof.
  intros [|x|q|i] [|y|q'|j] Ha H; cbn in *; try discriminate; try contradiction; try reflexivity.
  apply (ceqb_true_iff cand ceqb ceqb_spec) in H. subst. reflexivity.
Qed.

Lemma cell_eqb_str_eq_r : forall a b, str_cell b -> cell_eqb a b = true -> a = b.
Proof.
  intros [|x|q|i] [|y|q'|j] Hb H; cbn in *; try discriminate; try contradiction; try reflexivity.
  apply (ceqb_true_iff cand ceqb ceqb_spec) in H. subst. reflexivity.
Qed.

Lemma row_eqb_refl : forall a, row_eqb a a = true.
Proof. induction a as [|x a IH]; cbn; [reflexivity|]. rewrite cell_eqb_refl, IH. reflexivity. Qed.

Lemma row_eqb_eq_l : forall a b, Forall str_cell a -> (row_eqb a b = true <-> a = b).
Proof.
  intros a b Ha. split; [|intros <-; apply row_eqb_refl].
  revert b. induction Ha as [|x a Hx Ha IH]; intros [|y b] H; cbn in H; try discriminate.
  - reflexivity.
  - apply andb_true_iff in H. destruct H as [H1 H2].
    apply cell_eqb_str_eq in H1; [|exact Hx]. apply IH in H2. subst. reflexivity.
Qed.

Lemma row_eqb_eq_r : forall a b, Forall str_cell b -> (row_eqb a b = true <-> a = b).
Proof.
  intros a b Hb. split; [|intros <-; apply row_eqb_refl].
  revert a. induction Hb as [|y b Hy Hb IH]; intros [|x a] H; cbn in H; try discriminate.
  - reflexivity.
  - apply andb_true_iff in H. destruct H as [H1 H2].
    apply cell_eqb_str_eq_r in H1; [|exact Hy]. apply IH in H2. subst. reflexivity.
Qed.

Lemma nth_cell_ok : forall r i, (i < length r)%nat -> nth_cell r i = inl (cell_at r i).
Proof.
  intros r i H. unfold Loaders.nth_cell, LoaderSpec.cell_at.
  destruct (nth_error r i) as [c|] eqn:E.
  - rewrite (nth_error_nth _ _ _ E). reflexivity.
  - apply nth_error_None in E. lia.
Qed.

Lemma nth_cell_err : forall r i e, nth_cell r i = inr e -> e = EIndex /\ (length r <= i)%nat.
Proof.
  intros r i e. unfold Loaders.nth_cell. destruct (nth_error r i) as [c|] eqn:E; [discriminate|].
  intros H. injection H as <-. split; [reflexivity|]. apply nth_error_None. exact E.
Qed.

Lemma rmap_pattern : forall r ranks, (forall i, In i ranks -> (i < length r)%nat) ->
  rmap (nth_cell r) ranks = inl (pattern ranks r).
Proof.
  intros r ranks H. unfold LoaderSpec.pattern. apply rmap_total.
  intros i Hi. apply nth_cell_ok. apply H. exact Hi.
Qed.

(* ---------- group_rows: one group per distinct key, rows in arrival order ---------- *)

Lemma filter_none : forall (A : Type) (p : A -> bool) (l : list A),
  (forall a, In a l -> p a = false) -> filter p l = [].
Proof.
  intros A p l. induction l as [|a l IH]; intros H; cbn [filter]; [reflexivity|].
  rewrite (H a (or_introl eq_refl)). apply IH. intros b Hb. apply H. right. exact Hb.
Qed.

Lemma group_rows_cases : forall (acc : list (list cell * list (list cell))) key row,
  (forall k, In k (map fst acc) -> Forall str_cell k) ->
  (exists l1 rs l2, acc = l1 ++ (key, rs) :: l2 /\
                    group_rows acc key row = l1 ++ (key, rs ++ [row]) :: l2)
  \/ (~ In key (map fst acc) /\ group_rows acc key row = acc ++ [(key, [row])]).
Proof.
  induction acc as [|[k rs] acc IH]; intros key row Hstr; cbn [Loaders.group_rows].
  - right. split; [intros []|reflexivity].
  - destruct (row_eqb k key) eqn:E.
    + apply row_eqb_eq_l in E; [|apply Hstr; left; reflexivity]. subst k.
      left. exists [], rs, acc. split; reflexivity.
    + assert (Hne : k <> key) by (intros ->; rewrite row_eqb_refl in E; discriminate).
      destruct (IH key row) as [(l1 & rs' & l2 & -> & Hg)|[Hnot Hg]].
      * intros k' Hk'. apply Hstr. right. exact Hk'.
      * left. exists ((k, rs) :: l1), rs', l2. split; [reflexivity|]. rewrite Hg. reflexivity.
      * right. split; [|rewrite Hg; reflexivity].
        cbn [map fst In]. intros [H|H]; contradiction.
Qed.

Definition ginv (acc : list (list cell * list (list cell))) (done : list (list cell * list cell)) : Prop :=
  NoDup (map fst acc) /\
  (forall k, In k (map fst acc) <-> In k (map fst done)) /\
  (forall k rs, In (k, rs) acc -> rs = map snd (filter (fun kr => row_eqb (fst kr) k) done)).

Definition str_key (x : list cell * list cell) : Prop := Forall str_cell (fst x).

Lemma ginv_step : forall acc done x,
  str_key x -> Forall str_key done -> ginv acc done ->
  ginv (group_rows acc (fst x) (snd x)) (done ++ [x]).
Proof.
  intros acc done [key row] Hx Hdone (Hnd & Hkeys & Hrs). unfold str_key in Hx. cbn [fst snd] in *.
  assert (Hstr : forall k, In k (map fst acc) -> Forall str_cell k).
  { intros k Hk. apply Hkeys in Hk. apply in_map_iff in Hk. destruct Hk as (y & <- & Hy).
    rewrite Forall_forall in Hdone. apply Hdone. exact Hy. }
  assert (Hneq : forall k, k <> key -> row_eqb key k = false).
  { intros k Hk. destruct (row_eqb key k) eqn:E; [|reflexivity].
    apply row_eqb_eq_l in E; [|exact Hx]. congruence. }
  assert (Hfil : forall k, filter (fun kr => row_eqb (fst kr) k) (done ++ [(key, row)]) =
                           filter (fun kr => row_eqb (fst kr) k) done ++
                           (if row_eqb key k then [(key, row)] else [])).
  { intros k. rewrite filter_app. cbn [filter fst]. destruct (row_eqb key k); reflexivity. }
  destruct (group_rows_cases acc key row Hstr) as [(l1 & rs & l2 & Hacc & Hg)|[Hnot Hg]]; rewrite Hg.
  - assert (Hmf : map fst (l1 ++ (key, rs ++ [row]) :: l2) = map fst acc).
    { rewrite Hacc, !map_app. reflexivity. }
    assert (Hkin : In key (map fst acc)).
    { rewrite Hacc, map_app. apply in_or_app. right. left. reflexivity. }
    assert (Hother : forall k rs', In (k, rs') l1 \/ In (k, rs') l2 -> k <> key).
    { intros k rs' Hin ->. rewrite Hacc, map_app in Hnd. cbn [map fst] in Hnd.
      apply NoDup_remove_2 in Hnd. apply Hnd. apply in_or_app.
      destruct Hin as [Hin|Hin]; [left|right]; apply in_map_iff; exists (key, rs'); split; auto. }
    split; [rewrite Hmf; exact Hnd|]. split.
    + intros k. rewrite Hmf, map_app, in_app_iff. cbn [map fst In]. rewrite Hkeys. split.
      * intros H. left. exact H.
      * intros [H|[<-|[]]]; [exact H|apply Hkeys; exact Hkin].
    + intros k rs' Hin. rewrite Hfil.
      apply in_app_or in Hin. destruct Hin as [Hin|[Hin|Hin]].
      * rewrite (Hneq k (Hother k rs' (or_introl Hin))). rewrite app_nil_r. apply Hrs.
        rewrite Hacc. apply in_or_app. left. exact Hin.
      * injection Hin as <- <-. rewrite row_eqb_refl, map_app. cbn [map snd]. f_equal.
        apply Hrs. rewrite Hacc. apply in_or_app. right. left. reflexivity.
      * rewrite (Hneq k (Hother k rs' (or_intror Hin))). rewrite app_nil_r. apply Hrs.
        rewrite Hacc. apply in_or_app. right. right. exact Hin.
  - split; [|split].
    + rewrite map_app. cbn [map fst].
      apply (Permutation_NoDup (Permutation_cons_append (map fst acc) key)).
      constructor; assumption.
    + intros k. rewrite !map_app, !in_app_iff. cbn [map fst In]. rewrite Hkeys. reflexivity.
    + intros k rs' Hin. rewrite Hfil. apply in_app_or in Hin. destruct Hin as [Hin|[Hin|[]]].
      * assert (Hk : k <> key).
        { intros ->. apply Hnot. apply in_map_iff. exists (key, rs'). split; auto. }
        rewrite (Hneq k Hk), app_nil_r. apply Hrs. exact Hin.
      * injection Hin as <- <-. rewrite row_eqb_refl.
        rewrite filter_none; [reflexivity|].
        intros [k' r'] Hy. cbn [fst]. destruct (row_eqb k' key) eqn:E; [|reflexivity].
        apply row_eqb_eq_r in E; [|exact Hx]. subst k'. exfalso. apply Hnot. apply Hkeys.
        apply in_map_iff. exists (key, r'). split; auto.
Qed.

Lemma ginv_fold : forall keyed,
  Forall str_key keyed ->
  ginv (fold_left (fun acc kr => group_rows acc (fst kr) (snd kr)) keyed []) keyed.
Proof.
  intros keyed H.
  apply (fold_left_inv _ _ (fun acc kr => group_rows acc (fst kr) (snd kr)) ginv str_key
           ginv_step keyed [] [] H (Forall_nil _)).
  split; [constructor|]. split; [reflexivity|]. intros k rs [].
Qed.

(* ---------- load_csv, cut into stages (each stage is literally the model's text) ---------- *)

Definition id_check (rows : list (list cell)) (ic : option nat) : res unit :=
  match ic with
  | None => ok tt
  | Some i =>
      let! ids := rmap (fun r => nth_cell r i) rows in
      if existsb (fun c => match c with CBlank => true | _ => false end) ids then err EValue
      else if has_dup_cells ids then err EData else ok tt
  end.

Definition group_ballot (wc ic : option nat) (g : list cell * list (list cell)) : res ballot :=
  let! rk' := rmap (fun c => let! x := cell_cand c in ok [x]) (fst g) in
  let! w := match wc with
            | None => ok (Qnat (length (snd g)))
            | Some w0 =>
                let! ws := rmap (fun r => let! c := nth_cell r w0 in
                                          match c with CNum q => ok q | _ => err EType end) (snd g) in
                ok (qsum ws)
            end in
  let! voters := match ic with
                 | None => ok None
                 | Some i =>
                     let! ids := rmap (fun r => let! c := nth_cell r i in
                                                match c with CId x => ok x | _ => err EOther end) (snd g) in
                     ok (Some ids)
                 end in
  ok (mkBallot rk' w [] None voters).

Definition csv_rest (ncols : nat) (rows : list (list cell)) (rc : list nat) (wc ic : option nat)
  : res profile :=
  let! _ := match wc with
            | Some w => if Nat.ltb w ncols then ok tt else err EIndex
            | None => ok tt
            end in
  let! ranks := match rc with
                | [] => ok (filter (fun i => negb (match ic with Some j => Nat.eqb i j | None => false end)
                                             && negb (match wc with Some j => Nat.eqb i j | None => false end))
                                   (seq 0 ncols))
                | l => if forallb (fun i => Nat.ltb i ncols) l then ok l else err EIndex
                end in
  let! keyed := rmap (fun r => let! k := rmap (nth_cell r) ranks in ok (k, r)) rows in
  let groups := fold_left (fun acc kr => group_rows acc (fst kr) (snd kr)) keyed [] in
  let! bs := rmap (group_ballot wc ic) groups in
  mk_profile bs [].

Lemma load_csv_unfold : forall ncols rows rc wc ic, rows <> [] ->
  load_csv ncols rows rc wc ic = (let! _ := id_check rows ic in csv_rest ncols rows rc wc ic).
Proof. intros ncols [|r rows] rc wc ic H; [contradiction H; reflexivity|reflexivity]. Qed.

Lemma load_csv_empty : forall ncols rc wc ic, load_csv ncols [] rc wc ic = inr EEmptyData.
Proof. reflexivity. Qed.

Lemma mk_profile_nil : forall bs : list ballot, mk_profile bs [] = inl (mkProfile bs (cast_cands bs)).
Proof. reflexivity. Qed.

Lemma has_dup_cells_ids : forall (A : Type) (f : A -> positive) (l : list A),
  NoDup (map f l) -> has_dup_cells (map (fun r => CId (f r)) l) = false.
Proof.
  intros A f l Hnd. induction l as [|r rs IH]; [reflexivity|].
  cbn [map] in Hnd |- *. inversion Hnd as [|x l Hnotin Hnd']; subst.
  unfold Loaders.has_dup_cells. fold (has_dup_cells (map (fun r0 => CId (f r0)) rs)).
  rewrite (IH Hnd'), orb_false_r.
  apply not_true_is_false. intros H. apply existsb_exists in H. destruct H as (c & Hc & Hcb).
  apply in_map_iff in Hc. destruct Hc as (r' & <- & Hr'). cbn in Hcb.
  apply Pos.eqb_eq in Hcb. apply Hnotin. rewrite Hcb. apply in_map. exact Hr'.
Qed.

(* ---------- the well-formed case ---------- *)

Section WF.
Variables (ncols : nat) (rows : list (list cell)) (rc : list nat) (wc ic : option nat).
Hypothesis WF : wf_table ncols rows rc wc ic.
Let ranks := sel_ranks ncols rc wc ic.

Lemma ranks_lt : forall i, In i ranks -> (i < ncols)%nat.
Proof.
  intros i Hi. unfold ranks, LoaderSpec.sel_ranks in Hi. destruct rc as [|c rc'] eqn:E.
  - unfold default_ranks in Hi. apply filter_In in Hi. destruct Hi as [Hi _].
    apply in_seq in Hi. lia.
  - apply (wf_rc _ _ _ _ _ _ _ WF). exact Hi.
Qed.

Lemma pattern_rank_cells : forall r, In r rows -> Forall rank_cell (pattern ranks r).
Proof.
  intros r Hr. apply Forall_forall. intros c Hc. unfold LoaderSpec.pattern in Hc.
  apply in_map_iff in Hc. destruct Hc as (i & <- & Hi).
  apply (wf_rank_cells _ _ _ _ _ _ _ WF); assumption.
Qed.

Lemma pattern_str_cells : forall r, In r rows -> Forall str_cell (pattern ranks r).
Proof.
  intros r Hr. eapply Forall_impl; [|apply pattern_rank_cells; exact Hr].
  intros c. apply rank_cell_str.
Qed.

Lemma rows_with_In : forall k r,
  In r (rows_with ranks k rows) <-> In r rows /\ pattern ranks r = k.
Proof.
  intros k r. unfold LoaderSpec.rows_with. rewrite filter_In. split.
  - intros [Hr E]. split; [exact Hr|]. apply row_eqb_eq_l in E; [exact E|].
    apply pattern_str_cells. exact Hr.
  - intros [Hr <-]. split; [exact Hr|apply row_eqb_refl].
Qed.

Lemma id_check_ok : id_check rows ic = inl tt.
Proof.
  unfold id_check. destruct ic as [i|] eqn:Eic; [|reflexivity].
  destruct (wf_ids _ _ _ _ _ _ _ WF i eq_refl) as (Hi & Hcells & Hnd).
  rewrite (rmap_total _ _ _ (fun r => CId (id_at i r))).
  - cbn [rbind]. 
    assert (Hb : existsb (fun c : cell => match c with CBlank => true | _ => false end)
                   (map (fun r => CId (id_at i r)) rows) = false).
    { apply not_true_is_false. intros H. apply existsb_exists in H. destruct H as (c & Hc & Hcb).
      apply in_map_iff in Hc. destruct Hc as (r & <- & _). discriminate. }
    rewrite Hb.
    assert (Hd : has_dup_cells (map (fun r => CId (id_at i r)) rows) = false)
      by (apply has_dup_cells_ids; exact Hnd).
    rewrite Hd. reflexivity.
  - intros r Hr. rewrite nth_cell_ok; [|rewrite (wf_width _ _ _ _ _ _ _ WF r Hr); exact Hi].
    destruct (Hcells r Hr) as [x Hx]. unfold LoaderSpec.id_at. rewrite Hx. reflexivity.
Qed.

Lemma keyed_filter : forall (rows0 : list (list cell)) k,
  map snd (filter (fun kr : list cell * list cell => row_eqb (fst kr) k)
                  (map (fun r => (pattern ranks r, r)) rows0)) = rows_with ranks k rows0.
Proof.
  intros rows0 k. unfold LoaderSpec.rows_with. induction rows0 as [|r rs IH]; [reflexivity|].
  cbn [map filter fst]. destruct (row_eqb (pattern ranks r) k); cbn [map snd]; rewrite IH; reflexivity.
Qed.

Lemma group_ballot_ok : forall r, In r rows ->
  group_ballot wc ic (pattern ranks r, rows_with ranks (pattern ranks r) rows)
  = inl (csv_ballot ranks wc ic rows (pattern ranks r)).
Proof.
  intros r0 Hr0. set (k := pattern ranks r0). set (rs := rows_with ranks k rows).
  assert (Hsub : forall r, In r rs -> In r rows).
  { intros r Hr. apply rows_with_In in Hr. apply Hr. }
  assert (Hrk : rmap (fun c => let! x := cell_cand c in ok [x]) k = inl (pattern_ranking k)).
  { unfold LoaderSpec.pattern_ranking. apply rmap_total. intros c Hc.
    pose proof (pattern_str_cells r0 Hr0) as Hs. rewrite Forall_forall in Hs.
    specialize (Hs c Hc). destruct c; cbn in Hs |- *; try contradiction; reflexivity. }
  assert (HW : forall w, wc = Some w ->
     rmap (fun r => let! c := nth_cell r w in match c with CNum q => ok q | _ => err EType end) rs
     = inl (map (num_at w) rs)).
  { intros w Ew. destruct (wf_weights _ _ _ _ _ _ _ WF w Ew) as [Hw Hcells].
    apply rmap_total. intros r Hr. apply Hsub in Hr.
    rewrite nth_cell_ok; [|rewrite (wf_width _ _ _ _ _ _ _ WF r Hr); exact Hw].
    destruct (Hcells r Hr) as [q Hq]. unfold LoaderSpec.num_at. rewrite Hq. reflexivity. }
  assert (HI : forall i, ic = Some i ->
     rmap (fun r => let! c := nth_cell r i in match c with CId x => ok x | _ => err EOther end) rs
     = inl (map (id_at i) rs)).
  { intros i Ei. destruct (wf_ids _ _ _ _ _ _ _ WF i Ei) as (Hi & Hcells & _).
    apply rmap_total. intros r Hr. apply Hsub in Hr.
    rewrite nth_cell_ok; [|rewrite (wf_width _ _ _ _ _ _ _ WF r Hr); exact Hi].
    destruct (Hcells r Hr) as [x Hx]. unfold LoaderSpec.id_at. rewrite Hx. reflexivity. }
  unfold group_ballot, LoaderSpec.csv_ballot. cbn [fst snd]. fold k. fold rs.
  rewrite Hrk. cbn [rbind].
  destruct wc as [w|]; [rewrite (HW w eq_refl)|]; cbn [rbind ok];
    (destruct ic as [i|]; [rewrite (HI i eq_refl)|]; cbn [rbind ok]; reflexivity).
Qed.

Theorem csv_rest_wf :
  exists ks, NoDup ks /\ (forall k, In k ks <-> exists r, In r rows /\ pattern ranks r = k) /\
    csv_rest ncols rows rc wc ic
    = inl (mkProfile (map (csv_ballot ranks wc ic rows) ks)
                     (cast_cands (map (csv_ballot ranks wc ic rows) ks))).
Proof.
  assert (Hwchk : match wc with
                  | Some w => if Nat.ltb w ncols then ok tt else err EIndex
                  | None => ok tt
                  end = inl tt).
  { destruct wc as [w|] eqn:E; [|reflexivity].
    destruct (wf_weights _ _ _ _ _ _ _ WF w eq_refl) as [Hw _].
    apply Nat.ltb_lt in Hw. rewrite Hw. reflexivity. }
  assert (Hranks : match rc with
                   | [] => ok (filter (fun i => negb (match ic with Some j => Nat.eqb i j | None => false end)
                                              && negb (match wc with Some j => Nat.eqb i j | None => false end))
                                      (seq 0 ncols))
                   | l => if forallb (fun i => Nat.ltb i ncols) l then ok l else err EIndex
                   end = inl ranks).
  { unfold ranks, LoaderSpec.sel_ranks. destruct rc as [|c rc'] eqn:E; [reflexivity|].
    assert (Hf : forallb (fun i => Nat.ltb i ncols) (c :: rc') = true).
    { apply forallb_forall. intros i Hi. apply Nat.ltb_lt. apply (wf_rc _ _ _ _ _ _ _ WF). exact Hi. }
    rewrite Hf. reflexivity. }
  assert (Hkeyed : rmap (fun r => let! k := rmap (nth_cell r) ranks in ok (k, r)) rows
                   = inl (map (fun r => (pattern ranks r, r)) rows)).
  { apply rmap_total. intros r Hr. rewrite rmap_pattern; [reflexivity|].
    intros i Hi. rewrite (wf_width _ _ _ _ _ _ _ WF r Hr). apply ranks_lt. exact Hi. }
  unfold csv_rest. rewrite Hwchk. cbn [rbind]. rewrite Hranks. cbn [rbind]. rewrite Hkeyed. cbn [rbind].
  set (keyed := map (fun r => (pattern ranks r, r)) rows).
  set (G := fold_left (fun acc kr => group_rows acc (fst kr) (snd kr)) keyed []).
  assert (Hstr : Forall str_key keyed).
  { apply Forall_forall. intros x Hx. unfold keyed in Hx. apply in_map_iff in Hx.
    destruct Hx as (r & <- & Hr). unfold str_key. cbn [fst]. apply pattern_str_cells. exact Hr. }
  destruct (ginv_fold keyed Hstr) as (Hnd & Hkeys & Hrs). fold G in Hnd, Hkeys, Hrs.
  assert (Hkeys' : forall k, In k (map fst G) <-> exists r, In r rows /\ pattern ranks r = k).
  { intros k. rewrite Hkeys. unfold keyed. rewrite map_map. cbn [fst]. rewrite in_map_iff.
    split; intros (r & H1 & H2); exists r; split; assumption. }
  rewrite (rmap_total _ _ _ (fun g => csv_ballot ranks wc ic rows (fst g))).
  - cbn [rbind]. rewrite mk_profile_nil. exists (map fst G). split; [exact Hnd|].
    split; [exact Hkeys'|]. rewrite map_map. reflexivity.
  - intros [k rs] Hg. cbn [fst].
    assert (Hk : In k (map fst G)) by (apply in_map_iff; exists (k, rs); split; auto).
    apply Hkeys' in Hk. destruct Hk as (r & Hr & <-).
    rewrite (Hrs _ _ Hg). unfold keyed. rewrite keyed_filter. apply group_ballot_ok. exact Hr.
Qed.

Theorem load_csv_wf :
  exists ks, NoDup ks /\ (forall k, In k ks <-> exists r, In r rows /\ pattern ranks r = k) /\
    load_csv ncols rows rc wc ic
    = inl (mkProfile (map (csv_ballot ranks wc ic rows) ks)
                     (cast_cands (map (csv_ballot ranks wc ic rows) ks))).
Proof.
  destruct csv_rest_wf as (ks & H1 & H2 & H3). exists ks. split; [exact H1|]. split; [exact H2|].
  rewrite load_csv_unfold; [|apply (wf_nonempty _ _ _ _ _ _ _ WF)].
  rewrite id_check_ok. cbn [rbind]. exact H3.
Qed.

Lemma partition_sum : forall (h : list cell -> Q) ks rows0, NoDup ks ->
  (forall r, In r rows0 -> In r rows /\ In (pattern ranks r) ks) ->
  qsum (map (fun k => qsum (map h (rows_with ranks k rows0))) ks) == qsum (map h rows0).
Proof.
  intros h ks rows0 Hnd. induction rows0 as [|r rs IH]; intros Hin.
  - unfold LoaderSpec.rows_with. cbn [filter map]. rewrite qsum_map_const. rewrite qsum_nil. ring.
  - rewrite (qsum_map_ext_eq _ _
       (fun k => (if row_eqb (pattern ranks r) k then h r else 0)
                 + qsum (map h (rows_with ranks k rs)))).
    + rewrite qsum_map_plus. rewrite IH; [|intros r' Hr'; apply Hin; right; exact Hr'].
      destruct (Hin r (or_introl eq_refl)) as [Hr Hk].
      rewrite (qsum_one_hot _ (fun k => row_eqb (pattern ranks r) k) (pattern ranks r)).
      * cbn [map]. rewrite qsum_cons. reflexivity.
      * exact Hnd.
      * exact Hk.
      * intros k _. rewrite row_eqb_eq_l; [|apply pattern_str_cells; exact Hr].
        split; intros H; symmetry; exact H.
    + intros k _. unfold LoaderSpec.rows_with. cbn [filter].
      destruct (row_eqb (pattern ranks r) k); cbn [map]; rewrite ?qsum_cons; ring.
Qed.

End WF.

(* ---------- consequences of the well-formed case ---------- *)

Lemma pattern_ranking_inj : forall k1 k2, Forall rank_cell k1 -> Forall rank_cell k2 ->
  pattern_ranking k1 = pattern_ranking k2 -> k1 = k2.
Proof.
  intros k1 k2 H1. revert k2. induction H1 as [|c1 k1 Hc1 _ IH]; intros k2 H2 H.
  - destruct k2; [reflexivity|discriminate].
  - destruct k2 as [|c2 k2]; [discriminate|]. inversion H2 as [|x l Hc2 H2']; subst.
    cbn [LoaderSpec.pattern_ranking map] in H. injection H as Hc Hk.
    fold (pattern_ranking k1) in Hk. fold (pattern_ranking k2) in Hk.
    rewrite (IH k2 H2' Hk). f_equal.
    destruct c1, c2; cbn in Hc, Hc1, Hc2; try contradiction; try reflexivity; subst;
      try reflexivity; try (exfalso; apply Hc1; reflexivity); try (exfalso; apply Hc2; reflexivity).
Qed.

Lemma Qnat_length_qsum : forall (A : Type) (l : list A), Qnat (length l) == qsum (map (fun _ => 1) l).
Proof. intros A l. rewrite qsum_map_const. ring. Qed.

Lemma csv_ballot_wt_none : forall rks (wc0 ic0 : option nat) rows0 k, wc0 = None ->
  wt (csv_ballot rks wc0 ic0 rows0 k) = Qnat (length (rows_with rks k rows0)).
Proof. intros rks wc0 ic0 rows0 k ->. reflexivity. Qed.

Lemma csv_ballot_wt_some : forall rks (wc0 ic0 : option nat) rows0 k w, wc0 = Some w ->
  wt (csv_ballot rks wc0 ic0 rows0 k) = qsum (map (num_at w) (rows_with rks k rows0)).
Proof. intros rks wc0 ic0 rows0 k w ->. reflexivity. Qed.

Section Consequences.
Variables (ncols : nat) (rows : list (list cell)) (rc : list nat) (wc ic : option nat).
Hypothesis WF : wf_table ncols rows rc wc ic.
Variable p : profile.
Hypothesis Hload : load_csv ncols rows rc wc ic = inl p.
Let ranks := sel_ranks ncols rc wc ic.

Lemma csv_shape :
  exists ks, NoDup ks /\ (forall k, In k ks <-> exists r, In r rows /\ pattern ranks r = k) /\
    ballots p = map (csv_ballot ranks wc ic rows) ks /\ cands p = cast_cands (ballots p).
Proof.
  destruct (load_csv_wf ncols rows rc wc ic WF) as (ks & H1 & H2 & H3).
  rewrite Hload in H3. injection H3 as ->. exists ks. cbn [ballots cands]. auto.
Qed.

Lemma csv_ballot_of : forall b r, In b (ballots p) -> In r rows ->
  rk b = pattern_ranking (pattern ranks r) -> b = csv_ballot ranks wc ic rows (pattern ranks r).
Proof.
  intros b r Hb Hr Hrk. destruct csv_shape as (ks & Hnd & Hks & Hbs & _).
  rewrite Hbs in Hb. apply in_map_iff in Hb. destruct Hb as (k & <- & Hk).
  apply Hks in Hk. destruct Hk as (r' & Hr' & <-). f_equal.
  apply pattern_ranking_inj; [apply (pattern_rank_cells ncols rows rc wc ic WF); exact Hr'
                             |apply (pattern_rank_cells ncols rows rc wc ic WF); exact Hr|exact Hrk].
Qed.

Theorem csv_patterns_once :
  NoDup (map rk (ballots p)) /\
  (forall r, In r rows -> exists b, In b (ballots p) /\ rk b = pattern_ranking (pattern ranks r)) /\
  (forall b, In b (ballots p) -> exists r, In r rows /\ rk b = pattern_ranking (pattern ranks r)).
Proof.
  destruct csv_shape as (ks & Hnd & Hks & Hbs & _). rewrite Hbs. split; [|split].
  - rewrite map_map. cbn [LoaderSpec.csv_ballot rk]. apply NoDup_map_inj_in; [|exact Hnd].
    intros k1 k2 H1 H2. apply Hks in H1. apply Hks in H2.
    destruct H1 as (r1 & Hr1 & <-). destruct H2 as (r2 & Hr2 & <-).
    apply pattern_ranking_inj; apply (pattern_rank_cells ncols rows rc wc ic WF); assumption.
  - intros r Hr. exists (csv_ballot ranks wc ic rows (pattern ranks r)). split; [|reflexivity].
    apply in_map. apply Hks. exists r. split; [exact Hr|reflexivity].
  - intros b Hb. apply in_map_iff in Hb. destruct Hb as (k & <- & Hk). apply Hks in Hk.
    destruct Hk as (r & Hr & <-). exists r. split; [exact Hr|reflexivity].
Qed.

Theorem csv_column_order : forall b, In b (ballots p) ->
  exists r, In r rows /\ rk b = map (fun i => [cell_name (cell_at r i)]) ranks.
Proof.
  intros b Hb. destruct csv_patterns_once as (_ & _ & H). destruct (H b Hb) as (r & Hr & Hrk).
  exists r. split; [exact Hr|]. rewrite Hrk. unfold LoaderSpec.pattern_ranking, LoaderSpec.pattern.
  rewrite map_map. reflexivity.
Qed.

Theorem csv_weight_is_count : wc = None -> forall b r, In b (ballots p) -> In r rows ->
  rk b = pattern_ranking (pattern ranks r) ->
  wt b = Qnat (length (rows_with ranks (pattern ranks r) rows)).
Proof.
  intros Hwc b r Hb Hr Hrk. rewrite (csv_ballot_of b r Hb Hr Hrk).
  apply csv_ballot_wt_none. exact Hwc.
Qed.

Theorem csv_weight_is_sum : forall w, wc = Some w -> forall b r, In b (ballots p) -> In r rows ->
  rk b = pattern_ranking (pattern ranks r) ->
  wt b = qsum (map (num_at w) (rows_with ranks (pattern ranks r) rows)).
Proof.
  intros w Hwc b r Hb Hr Hrk. rewrite (csv_ballot_of b r Hb Hr Hrk).
  apply csv_ballot_wt_some. exact Hwc.
Qed.

Theorem csv_total :
  (wc = None -> total_wt (ballots p) == Qnat (length rows)) /\
  (forall w, wc = Some w -> total_wt (ballots p) == qsum (map (num_at w) rows)).
Proof.
  destruct csv_shape as (ks & Hnd & Hks & Hbs & _). unfold Core.total_wt. rewrite Hbs, map_map.
  assert (Hin : forall r, In r rows -> In r rows /\ In (pattern ranks r) ks).
  { intros r Hr. split; [exact Hr|]. apply Hks. exists r. split; [exact Hr|reflexivity]. }
  split.
  - intros Hwc. rewrite Qnat_length_qsum.
    rewrite <- (partition_sum ncols rows rc wc ic WF (fun _ => 1) ks rows Hnd Hin).
    apply qsum_map_ext_eq. intros k _. rewrite (csv_ballot_wt_none _ _ _ _ _ Hwc).
    apply Qnat_length_qsum.
  - intros w Hwc.
    rewrite <- (partition_sum ncols rows rc wc ic WF (num_at w) ks rows Hnd Hin).
    apply qsum_map_ext_eq. intros k _. rewrite (csv_ballot_wt_some _ _ _ _ _ _ Hwc).
    reflexivity.
Qed.

Theorem csv_voter_sets : forall b r, In b (ballots p) -> In r rows ->
  rk b = pattern_ranking (pattern ranks r) ->
  vs b = match ic with
         | None => None
         | Some i => Some (map (id_at i) (rows_with ranks (pattern ranks r) rows))
         end /\ sc b = [] /\ bid b = None.
Proof.
  intros b r Hb Hr Hrk. rewrite (csv_ballot_of b r Hb Hr Hrk).
  unfold LoaderSpec.csv_ballot. cbn [vs sc bid]. auto.
Qed.

Theorem csv_cands : cands p = cast_cands (ballots p).
Proof. destruct csv_shape as (ks & _ & _ & _ & H). exact H. Qed.

Theorem csv_cands_count : wc = None -> forall c,
  In c (cands p) <-> exists r i, In r rows /\ In i ranks /\ cell_name (cell_at r i) = c.
Proof.
  intros Hwc c. rewrite csv_cands. rewrite (cast_cands_In cand ceqb ceqb_spec). split.
  - intros (b & Hb & _ & [(g & Hg & Hc)|(s & Hs)]).
    + destruct (csv_column_order b Hb) as (r & Hr & Hrk). rewrite Hrk in Hg.
      apply in_map_iff in Hg. destruct Hg as (i & <- & Hi). destruct Hc as [<-|[]].
      exists r, i. auto.
    + exfalso. destruct csv_patterns_once as (_ & _ & H). destruct (H b Hb) as (r & Hr & Hrk).
      destruct (csv_voter_sets b r Hb Hr Hrk) as (_ & Hsc & _). rewrite Hsc in Hs. destruct Hs.
  - intros (r & i & Hr & Hi & <-). destruct csv_patterns_once as (_ & H & _).
    destruct (H r Hr) as (b & Hb & Hrk). exists b. split; [exact Hb|]. split.
    + rewrite (csv_weight_is_count Hwc b r Hb Hr Hrk).
      assert (Hin : In r (rows_with ranks (pattern ranks r) rows)).
      { apply (rows_with_In ncols rows rc wc ic WF). split; [exact Hr|reflexivity]. }
      destruct (rows_with ranks (pattern ranks r) rows) as [|x l]; [destruct Hin|].
      unfold Qnat, Qlt. cbn [length]. cbn [Qnum Qden inject_Z]. lia.
    + left. exists [cell_name (cell_at r i)]. split; [|left; reflexivity].
      rewrite Hrk. unfold LoaderSpec.pattern_ranking, LoaderSpec.pattern. rewrite map_map.
      apply in_map_iff. exists i. split; [reflexivity|exact Hi].
Qed.

End Consequences.

(* ---------- errors of load_csv ---------- *)

Lemma has_dup_cells_cons : forall x l,
  has_dup_cells (x :: l) = existsb (cell_eqb x) l || has_dup_cells l.
Proof. reflexivity. Qed.

Lemma has_dup_cells_true_iff : forall l,
  has_dup_cells l = true <->
  exists pre a mid b post, l = pre ++ a :: mid ++ b :: post /\ cell_eqb a b = true.
Proof.
  induction l as [|x l IH].
  - split; [discriminate|]. intros (pre & a & mid & b & post & H & _). destruct pre; discriminate.
  - rewrite has_dup_cells_cons, orb_true_iff, IH. split.
    + intros [H|(pre & a & mid & b & post & -> & Hab)].
      * apply existsb_exists in H. destruct H as (b & Hb & Hxb).
        apply in_split in Hb. destruct Hb as (mid & post & ->).
        exists [], x, mid, b, post. split; [reflexivity|exact Hxb].
      * exists (x :: pre), a, mid, b, post. split; [reflexivity|exact Hab].
    + intros (pre & a & mid & b & post & H & Hab). destruct pre as [|y pre]; cbn [app] in H.
      * injection H as -> ->. left. apply existsb_exists. exists b. split; [|exact Hab].
        apply in_or_app. right. left. reflexivity.
      * injection H as -> ->. right. exists pre, a, mid, b, post. split; [reflexivity|exact Hab].
Qed.

Definition late_err (e : exn) : Prop := e = EIndex \/ e = EOther \/ e = EType.

Lemma group_ballot_err : forall wc ic g e, group_ballot wc ic g = inr e -> late_err e.
Proof.
  intros wc ic [k rs] e. unfold group_ballot, late_err. cbn [fst snd].
  destruct (rmap _ k) as [rk'|e1] eqn:E1; cbn [rbind].
  2:{ intros H. injection H as <-. apply rmap_err_in in E1. destruct E1 as (c & _ & Hc).
      destruct c; cbn in Hc; try discriminate; injection Hc as <-; auto. }
  assert (Hnth : forall r i e', nth_cell r i = inr e' -> e' = EIndex).
  { intros r i e' H. apply nth_cell_err in H. apply H. }
  destruct wc as [w|].
  - destruct (rmap _ rs) as [ws|e2] eqn:E2; cbn [rbind].
    2:{ intros H. injection H as <-. apply rmap_err_in in E2. destruct E2 as (r & _ & Hr).
        destruct (nth_cell r w) as [c|e'] eqn:En; cbn [rbind] in Hr.
        - destruct c; try discriminate; injection Hr as <-; auto.
        - injection Hr as <-. left. exact (Hnth _ _ _ En). }
    clear E2. destruct ic as [i|]; cbn [rbind ok]; [|discriminate].
    destruct (rmap _ rs) as [ids|e3] eqn:E3; cbn [rbind ok]; [discriminate|].
    intros H. injection H as <-. apply rmap_err_in in E3. destruct E3 as (r & _ & Hr).
    destruct (nth_cell r i) as [c|e'] eqn:En; cbn [rbind] in Hr.
    + destruct c; try discriminate; injection Hr as <-; auto.
    + injection Hr as <-. left. exact (Hnth _ _ _ En).
  - cbn [rbind ok]. destruct ic as [i|]; cbn [rbind ok]; [|discriminate].
    destruct (rmap _ rs) as [ids|e3] eqn:E3; cbn [rbind ok]; [discriminate|].
    intros H. injection H as <-. apply rmap_err_in in E3. destruct E3 as (r & _ & Hr).
    destruct (nth_cell r i) as [c|e'] eqn:En; cbn [rbind] in Hr.
    + destruct c; try discriminate; injection Hr as <-; auto.
    + injection Hr as <-. left. exact (Hnth _ _ _ En).
Qed.

Lemma csv_rest_err : forall ncols rows rc wc ic e,
  csv_rest ncols rows rc wc ic = inr e -> late_err e.
Proof.
  intros ncols rows rc wc ic e. unfold csv_rest.
  destruct (match wc with Some w => if Nat.ltb w ncols then ok tt else err EIndex | None => ok tt end)
    as [[]|e0] eqn:E0; cbn [rbind].
  2:{ intros H. injection H as <-. destruct wc as [w|]; [|discriminate].
      destruct (Nat.ltb w ncols); [discriminate|]. injection E0 as <-. left. reflexivity. }
  match goal with |- rbind ?x _ = _ -> _ => destruct x as [ranks|e1] eqn:E1 end; cbn [rbind].
  2:{ intros H. injection H as <-. destruct rc as [|c rc']; [discriminate|].
      destruct (forallb _ (c :: rc')); [discriminate|]. injection E1 as <-. left. reflexivity. }
  destruct (rmap _ rows) as [keyed|e2] eqn:E2; cbn [rbind].
  2:{ intros H. injection H as <-. apply rmap_err_in in E2. destruct E2 as (r & _ & Hr).
      destruct (rmap (nth_cell r) ranks) as [k|e'] eqn:Ek; cbn [rbind] in Hr; [discriminate|].
      injection Hr as <-. apply rmap_err_in in Ek. destruct Ek as (i & _ & Hi).
      apply nth_cell_err in Hi. left. apply Hi. }
  destruct (rmap (group_ballot wc ic) _) as [bs|e3] eqn:E3; cbn [rbind].
  - rewrite mk_profile_nil. discriminate.
  - intros H. injection H as <-. apply rmap_err_in in E3. destruct E3 as (g & _ & Hg).
    eapply group_ballot_err. exact Hg.
Qed.

Theorem csv_errors : forall ncols rows rc wc ic,
  (load_csv ncols rows rc wc ic = inr EEmptyData <-> rows = []) /\
  (ic = None -> load_csv ncols rows rc wc ic <> inr EValue /\
                load_csv ncols rows rc wc ic <> inr EData) /\
  (forall i, ic = Some i -> rows <> [] -> (forall r, In r rows -> (i < length r)%nat) ->
     (load_csv ncols rows rc wc ic = inr EValue <-> exists r, In r rows /\ cell_at r i = CBlank) /\
     (load_csv ncols rows rc wc ic = inr EData <->
        (forall r, In r rows -> cell_at r i <> CBlank) /\
        exists pre r1 mid r2 post, rows = pre ++ r1 :: mid ++ r2 :: post /\
                                   cell_eqb (cell_at r1 i) (cell_at r2 i) = true)).
Proof.
  intros ncols rows rc wc ic.
  assert (Hlate : forall e, csv_rest ncols rows rc wc ic = inr e ->
                            e <> EEmptyData /\ e <> EValue /\ e <> EData).
  { intros e H. apply csv_rest_err in H. destruct H as [-> | [-> | ->]]; repeat split; discriminate. }
  split; [|split].
  - split; [|intros ->; reflexivity]. intros H. destruct rows as [|r rows']; [reflexivity|exfalso].
    rewrite load_csv_unfold in H by discriminate.
    destruct (id_check (r :: rows') ic) as [[]|e] eqn:E; cbn [rbind] in H.
    + apply Hlate in H. destruct H as (H & _). apply H. reflexivity.
    + injection H as ->. unfold id_check in E. destruct ic as [i|]; [|discriminate].
      destruct (rmap _ (r :: rows')) as [ids|e'] eqn:Er; cbn [rbind] in E.
      * destruct (existsb _ ids); [discriminate|]. destruct (has_dup_cells ids); discriminate.
      * injection E as ->. apply rmap_err_in in Er. destruct Er as (r' & _ & Hr').
        apply nth_cell_err in Hr'. destruct Hr' as [Hr' _]. discriminate.
  - intros ->. destruct rows as [|r rows']; [split; discriminate|].
    rewrite load_csv_unfold by discriminate. cbn [id_check rbind ok].
    split; intros H; apply Hlate in H; destruct H as (_ & H1 & H2); [apply H1|apply H2]; reflexivity.
  - intros i -> Hne Hlen. rewrite load_csv_unfold by exact Hne. unfold id_check.
    rewrite (rmap_total _ _ _ (fun r => cell_at r i)) by (intros r Hr; apply nth_cell_ok, Hlen, Hr).
    cbn [rbind].
    assert (Hblank : existsb (fun c : cell => match c with CBlank => true | _ => false end)
                       (map (fun r => cell_at r i) rows) = true <->
                     exists r, In r rows /\ cell_at r i = CBlank).
    { rewrite existsb_exists. split.
      - intros (c & Hc & Hcb). apply in_map_iff in Hc. destruct Hc as (r & <- & Hr).
        exists r. split; [exact Hr|]. destruct (cell_at r i); try discriminate. reflexivity.
      - intros (r & Hr & Hc). exists (cell_at r i).
        split; [apply in_map_iff; exists r; split; [reflexivity|exact Hr]|].
        rewrite Hc. reflexivity. }
    assert (Hdup : has_dup_cells (map (fun r => cell_at r i) rows) = true <->
                   exists pre r1 mid r2 post, rows = pre ++ r1 :: mid ++ r2 :: post /\
                                              cell_eqb (cell_at r1 i) (cell_at r2 i) = true).
    { rewrite has_dup_cells_true_iff. split.
      - intros (pre & a & mid & b & post & Hmap & Hab).
        apply map_eq_app in Hmap. destruct Hmap as (rpre & rrest & -> & <- & Hrest).
        apply map_eq_cons in Hrest. destruct Hrest as (r1 & rrest' & -> & <- & Hrest).
        apply map_eq_app in Hrest. destruct Hrest as (rmid & rrest'' & -> & <- & Hrest).
        apply map_eq_cons in Hrest. destruct Hrest as (r2 & rpost & -> & <- & <-).
        exists rpre, r1, rmid, r2, rpost. split; [reflexivity|exact Hab].
      - intros (pre & r1 & mid & r2 & post & -> & Hab).
        exists (map (fun r => cell_at r i) pre), (cell_at r1 i), (map (fun r => cell_at r i) mid),
               (cell_at r2 i), (map (fun r => cell_at r i) post).
        split; [|exact Hab]. rewrite map_app. cbn [map]. rewrite map_app. reflexivity. }
    destruct (existsb _ (map (fun r => cell_at r i) rows)) eqn:Eb.
    + split.
      * split; [intros _; apply Hblank; reflexivity|reflexivity].
      * split; [discriminate|]. intros [Hnb _]. exfalso.
        destruct (proj1 Hblank eq_refl) as (r & Hr & Hc). exact (Hnb r Hr Hc).
    + assert (Hnb : forall r, In r rows -> cell_at r i <> CBlank).
      { intros r Hr Hc. assert (H : false = true) by (apply Hblank; exists r; auto). discriminate. }
      destruct (has_dup_cells (map (fun r => cell_at r i) rows)) eqn:Ed.
      * split.
        -- split; [discriminate|]. intros H. apply Hblank in H. discriminate.
        -- split; [intros _; split; [exact Hnb|apply Hdup; reflexivity]|reflexivity].
      * cbn [rbind ok]. split.
        -- split.
           ++ intros H. apply Hlate in H. destruct H as (_ & H & _). contradiction H. reflexivity.
           ++ intros H. apply Hblank in H. discriminate.
        -- split.
           ++ intros H. apply Hlate in H. destruct H as (_ & _ & H). contradiction H. reflexivity.
           ++ intros [_ H]. apply Hdup in H. discriminate.
Qed.

(* ---------- to_csv ---------- *)

Theorem to_csv_rows_spec : forall p : profile,
  length (to_csv_rows p) = length (ballots p) /\
  (forall i, nth_error (to_csv_rows p) i
             = option_map (fun b => (wt b, rk b, sc b)) (nth_error (ballots p) i)) /\
  Forall2 (fun b row => row = (wt b, rk b, sc b)) (ballots p) (to_csv_rows p).
Proof.
  intros p. unfold Loaders.to_csv_rows. split; [apply map_length|]. split.
  - intros i. apply nth_error_map.
  - induction (ballots p) as [|b bs IH]; cbn [map]; constructor; [reflexivity|exact IH].
Qed.

(* ---------- load_scottish, cut into stages (each stage is literally the model's text) ---------- *)

Notation scot := (scot cand).
Notation scot_clean := (scot_clean cand).
Notation scot_counted := (scot_counted cand).
Notation brow_toks := (brow_toks cand).
Notation crow_toks := (crow_toks cand).
Notation crow_name := (crow_name cand).
Notation crow_party := (crow_party cand).
Notation scot_ranking := (scot_ranking cand).
Notation wf_scot := (wf_scot cand).
Notation tok_has_word := (tok_has_word cand).
Notation condense := (condense cand ceqb).
Notation condense_bs := (condense_bs cand ceqb).
Notation plain_ballot := (plain_ballot cand).
Notation dedup := (dedup cand ceqb).

Definition scot_entry (line : list tok) : res (cand * tok) :=
  match line with
  | TNum _ :: _ => err EType
  | t :: rest =>
      if negb (tok_has_word t) then err EData
      else match rest with
           | TStr c _ :: party :: _ => ok (c, party)
           | TNum _ :: _ :: _ => err EOther
           | _ => err EIndex
           end
  | [] => err EIndex
  end.

Definition scot_line (names : list cand) (line : list tok) : res ballot :=
  match line with
  | TNum w :: order =>
      let! r := rmap (fun t => match t with
                               | TNum i => match nth_error names (Z.to_nat (i - 1)) with
                                           | Some c => if (1 <=? i)%Z then ok [c] else err EKey
                                           | None => err EKey
                                           end
                               | _ => err EKey
                               end) order in
      ok (plain_ballot r (inject_Z w))
  | _ => err EValue
  end.

Definition scot_tail (data : list (list tok)) (k : Z) (seats ward : tok) : res scot :=
  let n := Z.of_nat (length data) in
  if negb (Z.eqb (Z.of_nat (scot_counted data)) k) then err EData
  else
    let cand_lines := py_slice data (n - (k + 1)) (-1) in
    let! entries := rmap scot_entry cand_lines in
    let names := map fst entries in
    let! bs := rmap (scot_line names) (py_slice data 1 (n - (k + 1))) in
    let! p := mk_profile bs (dedup names) in
    ok (mkScot cand (condense p) seats (dedup names) entries ward).

Definition scot_body (data : list (list tok)) : res scot :=
  match data with
  | [] => err EIndex
  | first :: _ =>
      match first with
      | [cn; seats] =>
          let! ward := match last data [] with w :: _ => ok w | [] => err EIndex end in
          match cn with
          | TNum k => scot_tail data k seats ward
          | _ => err EData
          end
      | _ => err EData
      end
  end.

Lemma load_scottish_eq : forall raw, load_scottish raw = scot_body (scot_clean raw).
Proof. reflexivity. Qed.

Lemma scot_clean_nonempty : forall raw r, In r (scot_clean raw) -> r <> [].
Proof.
  intros raw r H. unfold LoaderSpec.scot_clean in H. apply filter_In in H. destruct H as [_ H].
  destruct r; [discriminate|discriminate].
Qed.

Lemma last_In : forall (A : Type) (l : list A) d, l <> [] -> In (last l d) l.
Proof.
  intros A l d. induction l as [|a l IH]; intros H; [contradiction H; reflexivity|].
  destruct l as [|b l]; [left; reflexivity|]. right. apply IH. discriminate.
Qed.

Lemma scot_ward_ok : forall raw first rest, scot_clean raw = first :: rest ->
  exists w wrest, last (first :: rest) [] = w :: wrest.
Proof.
  intros raw first rest H.
  assert (Hin : In (last (first :: rest) []) (scot_clean raw)).
  { rewrite H. apply last_In. discriminate. }
  apply scot_clean_nonempty in Hin. destruct (last (first :: rest) []) as [|w wrest]; [contradiction Hin; reflexivity|].
  exists w, wrest. reflexivity.
Qed.

(* ---------- errors ---------- *)

Lemma scot_entry_EData : forall line, scot_entry line = inr EData ->
  exists t rest, line = t :: rest /\ tok_has_word t = false /\ (forall z, t <> TNum z).
Proof.
  intros [|t rest] H; [discriminate|]. exists t, rest. split; [reflexivity|].
  destruct t as [|z|s b]; cbn in H; try discriminate.
  - split; [reflexivity|discriminate].
  - destruct b; cbn in H.
    + destruct rest as [|[|z|c b'] [|party rest']]; discriminate.
    + split; [reflexivity|discriminate].
Qed.

Lemma scot_line_err : forall names line e, scot_line names line = inr e -> e = EKey \/ e = EValue.
Proof.
  intros names [|t order] e H; [injection H as <-; auto|].
  destruct t as [|w|s b]; cbn [scot_line] in H; try (injection H as <-; auto).
  destruct (rmap _ order) as [r|e'] eqn:E; cbn [rbind ok] in H; [discriminate|].
  injection H as <-. apply rmap_err_in in E. destruct E as (t & _ & Ht). left.
  destruct t as [|i|s b]; try (injection Ht as <-; reflexivity).
  destruct (nth_error names (Z.to_nat (i - 1))); [|injection Ht as <-; reflexivity].
  destruct (1 <=? i)%Z; [discriminate|injection Ht as <-; reflexivity].
Qed.

Theorem scottish_errors : forall raw,
  (scot_clean raw = [] -> load_scottish raw = inr EIndex) /\
  (forall first rest, scot_clean raw = first :: rest ->
     (length first <> 2%nat -> load_scottish raw = inr EData) /\
     (forall cn seats, first = [cn; seats] -> (forall k, cn <> TNum k) ->
        load_scottish raw = inr EData) /\
     (forall k seats, first = [TNum k; seats] ->
        Z.of_nat (scot_counted (first :: rest)) <> k -> load_scottish raw = inr EData) /\
     (forall k seats, first = [TNum k; seats] ->
        Z.of_nat (scot_counted (first :: rest)) = k -> load_scottish raw = inr EData ->
        exists line t rest',
          In line (py_slice (first :: rest) (Z.of_nat (length (first :: rest)) - (k + 1)) (-1)) /\
          line = t :: rest' /\ tok_has_word t = false /\ (forall z, t <> TNum z))).
Proof.
  intros raw. rewrite load_scottish_eq. split; [intros ->; reflexivity|].
  intros first rest H. destruct (scot_ward_ok raw first rest H) as (w & wrest & Hw).
  rewrite H. unfold scot_body. rewrite Hw. cbn [rbind ok].
  split; [|split; [|split]].
  - intros Hlen. destruct first as [|a [|b [|c l]]]; try reflexivity. contradiction Hlen. reflexivity.
  - intros cn seats -> Hcn. destruct cn as [|k|s b]; try reflexivity. contradiction (Hcn k). reflexivity.
  - intros k seats -> Hk. unfold scot_tail.
    apply Z.eqb_neq in Hk. rewrite Hk. reflexivity.
  - intros k seats -> Hk. unfold scot_tail.
    apply Z.eqb_eq in Hk. rewrite Hk. cbn [negb].
    set (data := [TNum k; seats] :: rest).
    destruct (rmap scot_entry _) as [entries|e] eqn:E; cbn [rbind].
    + destruct (rmap (scot_line (map fst entries)) _) as [bs|e] eqn:E2; cbn [rbind].
      * destruct (mk_profile bs (dedup (map fst entries))) as [p|e] eqn:E3; cbn [rbind ok]; [discriminate|].
        apply (mk_profile_err cand ceqb ceqb_spec) in E3. destruct E3 as [-> _]. discriminate.
      * intros He. injection He as ->. apply rmap_err_in in E2. destruct E2 as (line & _ & Hl).
        apply scot_line_err in Hl. destruct Hl; discriminate.
    + intros He. injection He as ->. apply rmap_err_in in E. destruct E as (line & Hin & Hl).
      apply scot_entry_EData in Hl. destruct Hl as (t & rest' & Hl & Ht & Hz).
      exists line, t, rest'. auto.
Qed.

(* ---------- the well-formed case ---------- *)

Lemma dedup_NoDup_id : forall l, NoDup l -> dedup l = l.
Proof.
  intros l H. induction H as [|a l Hn _ IH]; [reflexivity|]. cbn [Core.dedup].
  rewrite (proj2 (memb_false_iff cand ceqb ceqb_spec a l) Hn), IH. reflexivity.
Qed.

Lemma cast_cands_all_empty : forall bs : list ballot,
  (forall b, In b bs -> rk b = [] /\ sc b = []) -> cast_cands bs = [].
Proof.
  intros bs H. unfold Core.cast_cands.
  assert (Hc : concat (map (fun b : ballot => if Qlt_bool 0 (wt b) then ballot_cands cand b else []) bs) = []).
  { induction bs as [|b bs IH]; [reflexivity|]. cbn [map concat].
    rewrite IH by (intros x Hx; apply H; right; exact Hx).
    destruct (H b (or_introl eq_refl)) as [H1 H2]. unfold ballot_cands, flat. rewrite H1, H2.
    destruct (Qlt_bool 0 (wt b)); reflexivity. }
  rewrite Hc. reflexivity.
Qed.

Lemma scot_order_ok : forall names k order, k = Z.of_nat (length names) ->
  Forall (fun i => (1 <= i <= k)%Z) order ->
  rmap (fun t : tok => match t with
                 | TNum i => match nth_error names (Z.to_nat (i - 1)) with
                             | Some c => if (1 <=? i)%Z then ok [c] else err EKey
                             | None => err EKey
                             end
                 | _ => err EKey
                 end) (map TNum order) = inl (scot_ranking names order).
Proof.
  intros names k order Hk H. induction H as [|i order Hi _ IH]; [reflexivity|].
  cbn [map rmap]. unfold LoaderSpec.scot_ranking. cbn [flat_map].
  destruct (nth_error names (Z.to_nat (i - 1))) as [c|] eqn:E.
  - assert (Hle : (1 <=? i)%Z = true) by (apply Z.leb_le; lia). rewrite Hle. cbn [rbind ok].
    rewrite IH. reflexivity.
  - apply nth_error_None in E. lia.
Qed.

Theorem scottish_wf : forall raw k seats bal cs ward wrest,
  wf_scot raw k seats bal cs ward wrest ->
  exists s, load_scottish raw = inl s /\
    sc_seats cand s = seats /\ sc_ward cand s = ward /\
    sc_cands cand s = map crow_name cs /\
    sc_party cand s = map (fun c => (crow_name c, crow_party c)) cs /\
    cands (sc_profile cand s) = map crow_name cs /\
    ballots (sc_profile cand s) =
      condense_bs (map (fun b => plain_ballot (scot_ranking (map crow_name cs) (snd b)) (inject_Z (fst b))) bal).
Proof.
  intros raw k seats bal cs ward wrest (Hdata & Hk & Hbal & Hnd & Hward).
  set (names := map crow_name cs). set (first := [TNum k; seats] : list tok).
  set (B := map brow_toks bal). set (C := map crow_toks cs). set (wrow := ward :: wrest).
  fold first B C wrow in Hdata.
  set (data := first :: B ++ C ++ [wrow]).
  assert (Hlast : last data [] = wrow).
  { unfold data. change (first :: B ++ C ++ [wrow]) with ((first :: B) ++ C ++ [wrow]).
    rewrite app_assoc. apply last_last. }
  assert (Hcount : scot_counted data = length cs).
  { unfold LoaderSpec.scot_counted, data. cbn [filter first Loaders.tok_has_word].
    rewrite !filter_app.
    rewrite (filter_none _ _ B).
    2:{ intros r Hr. unfold B in Hr. apply in_map_iff in Hr. destruct Hr as (b & <- & _). reflexivity. }
    rewrite (Lib_rk.filter_all_true _ _ C).
    2:{ intros r Hr. unfold C in Hr. apply in_map_iff in Hr. destruct Hr as (c & <- & _). reflexivity. }
    cbn [filter wrow]. rewrite Hward. cbn [app]. rewrite app_nil_r. unfold C. apply map_length. }
  assert (Hn : (Z.of_nat (length data) - (k + 1) = Z.of_nat (length (first :: B)))%Z).
  { unfold data. cbn [length]. rewrite !app_length. cbn [length]. unfold C. rewrite map_length. lia. }
  assert (Hslice1 : py_slice data (Z.of_nat (length data) - (k + 1)) (-1) = C).
  { rewrite Hn. unfold data. change (first :: B ++ C ++ [wrow]) with ((first :: B) ++ C ++ [wrow]).
    apply py_slice_mid_last. }
  assert (Hslice2 : py_slice data 1 (Z.of_nat (length data) - (k + 1)) = B).
  { rewrite Hn. unfold data. change (first :: B ++ C ++ [wrow]) with ([first] ++ B ++ (C ++ [wrow])).
    change 1%Z with (Z.of_nat (length [first])).
    change (length (first :: B)) with (length [first] + length B)%nat. apply py_slice_mid. }
  assert (Hentries : rmap scot_entry C = inl (map (fun c => (crow_name c, crow_party c)) cs)).
  { unfold C. apply rmap_map_total. intros c _. reflexivity. }
  assert (Hnames : map fst (map (fun c => (crow_name c, crow_party c)) cs) = names).
  { rewrite map_map. reflexivity. }
  assert (Hlen : k = Z.of_nat (length names)) by (unfold names; rewrite map_length; exact Hk).
  set (mkb := fun b : Z * list Z => plain_ballot (scot_ranking names (snd b)) (inject_Z (fst b))).
  assert (Hbs : rmap (scot_line names) B = inl (map mkb bal)).
  { unfold B. apply rmap_map_total. intros [w order] Hb.
    unfold LoaderSpec.brow_toks, mkb. cbn [fst snd scot_line].
    rewrite Forall_forall in Hbal. specialize (Hbal _ Hb). cbn [snd] in Hbal.
    rewrite (scot_order_ok names k order Hlen Hbal). reflexivity. }
  assert (Hdn : dedup names = names) by (apply dedup_NoDup_id; exact Hnd).
  assert (Hprof : mk_profile (map mkb bal) names
                  = inl (mkProfile (map mkb bal) names)).
  { unfold Core.mk_profile. rewrite (proj2 (has_dup_false_iff cand ceqb ceqb_spec names) Hnd).
    destruct names as [|c0 names'] eqn:En; [|reflexivity].
    unfold ok. f_equal. f_equal. apply cast_cands_all_empty.
    intros b Hb. apply in_map_iff in Hb. destruct Hb as ([w order] & <- & Hb). unfold mkb. cbn [rk sc fst snd].
    split; [|reflexivity]. rewrite Forall_forall in Hbal. specialize (Hbal _ Hb). cbn [snd] in Hbal.
    destruct order as [|i order]; [reflexivity|]. inversion Hbal as [|x l Hi _]; subst.
    cbn [length] in Hlen. lia. }
  rewrite load_scottish_eq, Hdata. fold data. unfold scot_body.
  change (match data with [] => err EIndex | first0 :: _ => match first0 with
            | [cn; seats0] => let! ward0 := match last data [] with w :: _ => ok w | [] => err EIndex end in
                match cn with TNum k0 => scot_tail data k0 seats0 ward0 | _ => err EData end
            | _ => err EData end end)
    with (let! ward0 := match last data [] with w :: _ => ok w | [] => err EIndex end in
          scot_tail data k seats ward0).
  rewrite Hlast. cbn [wrow rbind ok]. unfold scot_tail.
  rewrite Hcount, <- Hk, Z.eqb_refl. cbn [negb].
  rewrite Hslice1, Hentries. cbn [rbind]. rewrite Hnames, Hslice2, Hbs. cbn [rbind].
  rewrite Hdn, Hprof. cbn [rbind ok].
  eexists. split; [reflexivity|]. cbn [sc_seats sc_ward sc_cands sc_party sc_profile].
  repeat split.
Qed.

Theorem scottish_weights : forall raw k seats bal cs ward wrest s,
  wf_scot raw k seats bal cs ward wrest -> load_scottish raw = inl s ->
  (forall r, wtof_rk r (ballots (sc_profile cand s)) ==
             qsum (map (fun b => inject_Z (fst b))
                       (filter (fun b => ranking_eqb r (scot_ranking (map crow_name cs) (snd b))) bal))) /\
  total_wt (ballots (sc_profile cand s)) == qsum (map (fun b => inject_Z (fst b)) bal).
Proof.
  intros raw k seats bal cs ward wrest s Hwf Hs.
  destruct (scottish_wf raw k seats bal cs ward wrest Hwf) as (s' & Hs' & _ & _ & _ & _ & _ & Hb).
  rewrite Hs in Hs'. injection Hs' as <-. rewrite Hb.
  set (mkb := fun b : Z * list Z => plain_ballot (scot_ranking (map crow_name cs) (snd b)) (inject_Z (fst b))).
  assert (Hsf : score_free cand (map mkb bal)).
  { apply Forall_forall. intros b Hin. apply in_map_iff in Hin. destruct Hin as (x & <- & _). reflexivity. }
  split.
  - intros r. rewrite (condense_wtof cand ceqb ceqb_spec r _ Hsf).
    unfold EditSpec.wtof_rk. rewrite filter_map_comm, map_map. reflexivity.
  - rewrite (condense_total cand ceqb). unfold Core.total_wt. rewrite map_map. reflexivity.
Qed.

Theorem load_csv_total : forall ncols rows rc wc ic,
  wf_table ncols rows rc wc ic -> exists p, load_csv ncols rows rc wc ic = inl p.
Proof.
  intros ncols rows rc wc ic WF. destruct (load_csv_wf ncols rows rc wc ic WF) as (ks & _ & _ & H).
  eexists. exact H.
Qed.

(* on rank cells the model's row comparison is literal equality *)
Theorem row_eqb_rank_cells : forall a b, Forall rank_cell a -> (row_eqb a b = true <-> a = b).
Proof.
  intros a b H. apply row_eqb_eq_l. eapply Forall_impl; [|exact H]. apply rank_cell_str.
Qed.

End WithCand.
