(* Proofs/C18_loaders.v — load_csv / group_rows / load_scottish / py_slice / to_csv_rows
   (Model/Loaders.v) against the vocabulary of Spec/LoaderSpec.v. *)
From VK Require Import Base Core Loaders EditSpec LoaderSpec Lib_rk Lib_condense12.
From Coq Require Import Lia Lqa Permutation Setoid Morphisms.

#[local] Arguments CBlank {cand}.
#[local] Arguments CStr {cand}.
#[local] Arguments CNum {cand}.
#[local] Arguments CId {cand}.
#[local] Arguments TEmpty {cand}.
#[local] Arguments TNum {cand}.
#[local] Arguments TStr {cand}.

(* ---------- generic list facts ---------- *)

Lemma skipn_length_app : forall (A : Type) (l1 l2 : list A), skipn (length l1) (l1 ++ l2) = l2.
Proof. intros A l1 l2. induction l1 as [|a l1 IH]; cbn [length app skipn]; [reflexivity|exact IH]. Qed.

Lemma firstn_length_app : forall (A : Type) (l1 l2 : list A), firstn (length l1) (l1 ++ l2) = l1.
Proof.
  intros A l1 l2. induction l1 as [|a l1 IH]; cbn [length app firstn].
  - destruct l2; reflexivity.
  - rewrite IH. reflexivity.
Qed.

Lemma rmap_err_in : forall (A B : Type) (f : A -> res B) (l : list A) (e : exn),
  rmap f l = inr e -> exists a, In a l /\ f a = inr e.
Proof.
  intros A B f l e H. apply rmap_err_inv in H. destruct H as (l1 & a & l2 & -> & Ha & _).
  exists a. split; [apply in_or_app; right; left; reflexivity|exact Ha].
Qed.

Lemma fold_left_inv : forall (A B : Type) (f : A -> B -> A) (I : A -> list B -> Prop) (P : B -> Prop),
  (forall acc done x, P x -> Forall P done -> I acc done -> I (f acc x) (done ++ [x])) ->
  forall l done acc, Forall P l -> Forall P done -> I acc done -> I (fold_left f l acc) (done ++ l).
Proof.
  intros A B f I P Hstep l. induction l as [|x l IH]; intros done acc Hl Hd Hacc; cbn [fold_left].
  - rewrite app_nil_r. exact Hacc.
  - inversion Hl as [|y l' Hx Hl']; subst.
    replace (done ++ x :: l) with ((done ++ [x]) ++ l) by (rewrite <- app_assoc; reflexivity).
    apply IH; [exact Hl'| |apply Hstep; assumption].
    apply Forall_app. split; [exact Hd|constructor; [exact Hx|constructor]].
Qed.

Lemma NoDup_map_inj_in : forall (A B : Type) (f : A -> B) (l : list A),
  (forall a b, In a l -> In b l -> f a = f b -> a = b) -> NoDup l -> NoDup (map f l).
Proof.
  intros A B f l Hinj Hnd. induction Hnd as [|a l Hnotin Hnd IH]; cbn [map].
  - constructor.
  - constructor.
    + intros Hin. apply in_map_iff in Hin. destruct Hin as (b & Hfb & Hb).
      assert (b = a) by (apply Hinj; [right; exact Hb|left; reflexivity|exact Hfb]).
      subst b. contradiction.
    + apply IH. intros x y Hx Hy. apply Hinj; right; assumption.
Qed.

(* indicator sum: exactly one element of a duplicate-free list matches *)
Lemma qsum_one_hot : forall (A : Type) (t : A -> bool) (x : A) (q : Q) (l : list A),
  NoDup l -> In x l -> (forall k, In k l -> (t k = true <-> k = x)) ->
  qsum (map (fun k => if t k then q else 0) l) == q.
Proof.
  intros A t x q l Hnd. induction Hnd as [|a l Hnotin Hnd IH]; intros Hin Ht.
  - destruct Hin.
  - cbn [map]. rewrite qsum_cons. destruct Hin as [->|Hin].
    + rewrite (proj2 (Ht x (or_introl eq_refl)) eq_refl).
      rewrite (qsum_map_ext_eq _ _ (fun _ => 0)).
      * rewrite qsum_map_const. ring.
      * intros k Hk. destruct (t k) eqn:E; [|reflexivity].
        apply Ht in E; [|right; exact Hk]. subst k. contradiction.
    + destruct (t a) eqn:E.
      * apply Ht in E; [|left; reflexivity]. subst a. contradiction.
      * rewrite IH; [ring|exact Hin|]. intros k Hk. apply Ht. right. exact Hk.
Qed.

(* ---------- py_slice ---------- *)

Lemma py_norm_id : forall n i, (0 <= i <= n)%Z -> py_norm n i = i.
Proof.
  intros n i H. unfold py_norm.
  destruct (i <? 0)%Z eqn:E1; [apply Z.ltb_lt in E1; lia|].
  rewrite E1. destruct (n <? i)%Z eqn:E2; [apply Z.ltb_lt in E2; lia|reflexivity].
Qed.

Lemma py_norm_neg : forall n i, (i < 0)%Z -> (0 <= n + i)%Z -> py_norm n i = (n + i)%Z.
Proof.
  intros n i H1 H2. unfold py_norm.
  destruct (i <? 0)%Z eqn:E1; [|apply Z.ltb_ge in E1; lia].
  destruct (n + i <? 0)%Z eqn:E2; [apply Z.ltb_lt in E2; lia|].
  destruct (n <? n + i)%Z eqn:E3; [apply Z.ltb_lt in E3; lia|reflexivity].
Qed.

Theorem py_slice_range : forall (A : Type) (l : list A) (a b : Z),
  (0 <= a)%Z -> (a <= b)%Z -> (b <= Z.of_nat (length l))%Z ->
  py_slice l a b = firstn (Z.to_nat (b - a)) (skipn (Z.to_nat a) l).
Proof.
  intros A l a b H1 H2 H3. unfold py_slice. cbv zeta.
  rewrite (py_norm_id _ a); [|lia]. rewrite (py_norm_id _ b); [|lia]. reflexivity.
Qed.

Theorem py_slice_to_last : forall (A : Type) (l : list A) (a : Z),
  l <> [] -> (0 <= a)%Z -> (a <= Z.of_nat (length l) - 1)%Z ->
  py_slice l a (-1) = firstn (Z.to_nat (Z.of_nat (length l) - 1 - a)) (skipn (Z.to_nat a) l).
Proof.
  intros A l a Hl H1 H2. unfold py_slice. cbv zeta. assert (Hlen : (1 <= Z.of_nat (length l))%Z) by (destruct l; [contradiction|cbn [length]; lia]).
  rewrite (py_norm_id _ a); [|lia]. rewrite py_norm_neg; [|lia|lia].
  replace (Z.of_nat (length l) + -1 - a)%Z with (Z.of_nat (length l) - 1 - a)%Z by lia.
  reflexivity.
Qed.

(* a slice in nat terms: l = pre ++ mid ++ post *)
Lemma py_slice_mid : forall (A : Type) (pre mid post : list A),
  py_slice (pre ++ mid ++ post) (Z.of_nat (length pre)) (Z.of_nat (length pre + length mid)) = mid.
Proof.
  intros A pre mid post. rewrite py_slice_range.
  - rewrite Nat2Z.id. rewrite skipn_length_app.
    replace (Z.to_nat (Z.of_nat (length pre + length mid) - Z.of_nat (length pre))) with (length mid) by lia.
    apply firstn_length_app.
  - lia.
  - lia.
  - rewrite !app_length. lia.
Qed.

Lemma py_slice_mid_last : forall (A : Type) (pre mid : list A) (x : A),
  py_slice (pre ++ mid ++ [x]) (Z.of_nat (length pre)) (-1) = mid.
Proof.
  intros A pre mid x. rewrite py_slice_to_last.
  - rewrite Nat2Z.id. rewrite skipn_length_app.
    rewrite !app_length. cbn [length].
    replace (Z.to_nat (Z.of_nat (length pre + (length mid + 1)) - 1 - Z.of_nat (length pre))) with (length mid) by lia.
    apply firstn_length_app.
  - destruct pre; [destruct mid|]; discriminate.
  - lia.
  - rewrite !app_length. cbn [length]. lia.
Qed.

Section WithCand.
Variable cand : Type.
Variable ceqb : cand -> cand -> bool.
Hypothesis ceqb_spec : forall a b, reflect (a = b) (ceqb a b).
Variable blank : cand.

Notation cell := (cell cand).
Notation tok := (tok cand).
Notation ranking := (ranking cand).
Notation ballot := (ballot cand).
Notation profile := (profile cand).
Notation cell_eqb := (cell_eqb cand ceqb).
Notation row_eqb := (row_eqb cand ceqb).
Notation nth_cell := (nth_cell cand).
Notation cell_cand := (cell_cand cand blank).
Notation group_rows := (group_rows cand ceqb).
Notation has_dup_cells := (has_dup_cells cand ceqb).
Notation load_csv := (load_csv cand ceqb blank).
Notation load_scottish := (load_scottish cand ceqb).
Notation to_csv_rows := (to_csv_rows cand).
Notation cell_at := (cell_at cand).
Notation pattern := (pattern cand).
Notation cell_name := (cell_name cand blank).
Notation pattern_ranking := (pattern_ranking cand blank).
Notation sel_ranks := (sel_ranks).
Notation rows_with := (rows_with cand ceqb).
Notation num_at := (num_at cand).
Notation id_at := (id_at cand).
Notation rank_cell := (rank_cell cand blank).
Notation wf_table := (wf_table cand blank).
Notation csv_ballot := (csv_ballot cand ceqb blank).
Notation ranking_eqb := (ranking_eqb cand ceqb).
Notation wtof_rk := (wtof_rk cand ceqb).
Notation total_wt := (total_wt cand).
Notation cast_cands := (cast_cands cand ceqb).
Notation mk_profile := (mk_profile cand ceqb).

(* ---------- cells ---------- *)

Definition str_cell (c : cell) : Prop := match c with CBlank | CStr _ => True | _ => False end.

Lemma rank_cell_str : forall c, rank_cell c -> str_cell c.
Proof. intros [|x|q|i] H; cbn in *; auto. Qed.

Lemma cell_eqb_refl : forall c, cell_eqb c c = true.
Proof.
  intros [|x|q|i]; cbn.
  - reflexivity.
  - apply (ceqb_refl cand ceqb ceqb_spec).
  - apply Qeq_bool_iff. reflexivity.
  - apply Pos.eqb_refl.
Qed.

Lemma cell_eqb_str_eq : forall a b, str_cell a -> cell_eqb a b = true -> a = b.
Proof.
  intros [|x|q|i] [|y|q'|j] Ha H; cbn in *; try discriminate; try contradiction; try reflexivity.
  apply (ceqb_true_iff cand ceqb ceqb_spec) in H. subst. reflexivity.
Qed.

Lemma cell_eqb_str_eq_r : forall a b, str_cell b -> cell_eqb a b = true -> a = b.
Proof.
  intros [|x|q|i] [|y|q'|j] Hb H; cbn in *; try discriminate; try contradiction; try reflexivity.
  apply (ceqb_true_iff cand ceqb ceqb_spec) in H. subst. reflexivity.
Qed.

Lemma row_eqb_refl : forall a, row_eqb a a = true.
Proof. induction a as [|x a IH]; cbn; [reflexivity|]. rewrite cell_eqb_refl, IH. reflexivity. Qed.

Lemma row_eqb_eq_l : forall a b, Forall str_cell a -> (row_eqb a b = true <-> a = b).
Proof.
  intros a b Ha. split; [|intros <-; apply row_eqb_refl].
  revert b. induction Ha as [|x a Hx Ha IH]; intros [|y b] H; cbn in H; try discriminate.
  - reflexivity.
  - apply andb_true_iff in H. destruct H as [H1 H2].
    apply cell_eqb_str_eq in H1; [|exact Hx]. apply IH in H2. subst. reflexivity.
Qed.

Lemma row_eqb_eq_r : forall a b, Forall str_cell b -> (row_eqb a b = true <-> a = b).
Proof.
  intros a b Hb. split; [|intros <-; apply row_eqb_refl].
  revert a. induction Hb as [|y b Hy Hb IH]; intros [|x a] H; cbn in H; try discriminate.
  - reflexivity.
  - apply andb_true_iff in H. destruct H as [H1 H2].
    apply cell_eqb_str_eq_r in H1; [|exact Hy]. apply IH in H2. subst. reflexivity.
Qed.

Lemma nth_cell_ok : forall r i, (i < length r)%nat -> nth_cell r i = inl (cell_at r i).
Proof.
  intros r i H. unfold Loaders.nth_cell, LoaderSpec.cell_at.
  destruct (nth_error r i) as [c|] eqn:E.
  - rewrite (nth_error_nth _ _ _ E). reflexivity.
  - apply nth_error_None in E. lia.
Qed.

Lemma nth_cell_err : forall r i e, nth_cell r i = inr e -> e = EIndex /\ (length r <= i)%nat.
Proof.
  intros r i e. unfold Loaders.nth_cell. destruct (nth_error r i) as [c|] eqn:E; [discriminate|].
  intros H. injection H as <-. split; [reflexivity|]. apply nth_error_None. exact E.
Qed.

Lemma rmap_pattern : forall r ranks, (forall i, In i ranks -> (i < length r)%nat) ->
  rmap (nth_cell r) ranks = inl (pattern ranks r).
Proof.
  intros r ranks H. unfold LoaderSpec.pattern. apply rmap_total.
  intros i Hi. apply nth_cell_ok. apply H. exact Hi.
Qed.

(* ---------- group_rows: one group per distinct key, rows in arrival order ---------- *)

Lemma filter_none : forall (A : Type) (p : A -> bool) (l : list A),
  (forall a, In a l -> p a = false) -> filter p l = [].
Proof.
  intros A p l. induction l as [|a l IH]; intros H; cbn [filter]; [reflexivity|].
  rewrite (H a (or_introl eq_refl)). apply IH. intros b Hb. apply H. right. exact Hb.
Qed.

Lemma group_rows_cases : forall (acc : list (list cell * list (list cell))) key row,
  (forall k, In k (map fst acc) -> Forall str_cell k) ->
  (exists l1 rs l2, acc = l1 ++ (key, rs) :: l2 /\
                    group_rows acc key row = l1 ++ (key, rs ++ [row]) :: l2)
  \/ (~ In key (map fst acc) /\ group_rows acc key row = acc ++ [(key, [row])]).
Proof.
  induction acc as [|[k rs] acc IH]; intros key row Hstr; cbn [Loaders.group_rows].
  - right. split; [intros []|reflexivity].
  - destruct (row_eqb k key) eqn:E.
    + apply row_eqb_eq_l in E; [|apply Hstr; left; reflexivity]. subst k.
      left. exists [], rs, acc. split; reflexivity.
    + assert (Hne : k <> key) by (intros ->; rewrite row_eqb_refl in E; discriminate).
      destruct (IH key row) as [(l1 & rs' & l2 & -> & Hg)|[Hnot Hg]].
      * intros k' Hk'. apply Hstr. right. exact Hk'.
      * left. exists ((k, rs) :: l1), rs', l2. split; [reflexivity|]. rewrite Hg. reflexivity.
      * right. split; [|rewrite Hg; reflexivity].
        cbn [map fst In]. intros [H|H]; contradiction.
Qed.

Definition ginv (acc : list (list cell * list (list cell))) (done : list (list cell * list cell)) : Prop :=
  NoDup (map fst acc) /\
  (forall k, In k (map fst acc) <-> In k (map fst done)) /\
  (forall k rs, In (k, rs) acc -> rs = map snd (filter (fun kr => row_eqb (fst kr) k) done)).

Definition str_key (x : list cell * list cell) : Prop := Forall str_cell (fst x).

Lemma ginv_step : forall acc done x,
  str_key x -> Forall str_key done -> ginv acc done ->
  ginv (group_rows acc (fst x) (snd x)) (done ++ [x]).
Proof.
  intros acc done [key row] Hx Hdone (Hnd & Hkeys & Hrs). unfold str_key in Hx. cbn [fst snd] in *.
  assert (Hstr : forall k, In k (map fst acc) -> Forall str_cell k).
  { intros k Hk. apply Hkeys in Hk. apply in_map_iff in Hk. destruct Hk as (y & <- & Hy).
    rewrite Forall_forall in Hdone. apply Hdone. exact Hy. }
  assert (Hneq : forall k, k <> key -> row_eqb key k = false).
  { intros k Hk. destruct (row_eqb key k) eqn:E; [|reflexivity].
    apply row_eqb_eq_l in E; [|exact Hx]. congruence. }
  assert (Hfil : forall k, filter (fun kr => row_eqb (fst kr) k) (done ++ [(key, row)]) =
                           filter (fun kr => row_eqb (fst kr) k) done ++
                           (if row_eqb key k then [(key, row)] else [])).
  { intros k. rewrite filter_app. cbn [filter fst]. destruct (row_eqb key k); reflexivity. }
  destruct (group_rows_cases acc key row Hstr) as [(l1 & rs & l2 & Hacc & Hg)|[Hnot Hg]]; rewrite Hg.
  - assert (Hmf : map fst (l1 ++ (key, rs ++ [row]) :: l2) = map fst acc).
    { rewrite Hacc, !map_app. reflexivity. }
    assert (Hkin : In key (map fst acc)).
    { rewrite Hacc, map_app. apply in_or_app. right. left. reflexivity. }
    assert (Hother : forall k rs', In (k, rs') l1 \/ In (k, rs') l2 -> k <> key).
    { intros k rs' Hin ->. rewrite Hacc, map_app in Hnd. cbn [map fst] in Hnd.
      apply NoDup_remove_2 in Hnd. apply Hnd. apply in_or_app.
      destruct Hin as [Hin|Hin]; [left|right]; apply in_map_iff; exists (key, rs'); split; auto. }
    split; [rewrite Hmf; exact Hnd|]. split.
    + intros k. rewrite Hmf, map_app, in_app_iff. cbn [map fst In]. rewrite Hkeys. split.
      * intros H. left. exact H.
      * intros [H|[<-|[]]]; [exact H|apply Hkeys; exact Hkin].
    + intros k rs' Hin. rewrite Hfil.
      apply in_app_or in Hin. destruct Hin as [Hin|[Hin|Hin]].
      * rewrite (Hneq k (Hother k rs' (or_introl Hin))). rewrite app_nil_r. apply Hrs.
        rewrite Hacc. apply in_or_app. left. exact Hin.
      * injection Hin as <- <-. rewrite row_eqb_refl, map_app. cbn [map snd]. f_equal.
        apply Hrs. rewrite Hacc. apply in_or_app. right. left. reflexivity.
      * rewrite (Hneq k (Hother k rs' (or_intror Hin))). rewrite app_nil_r. apply Hrs.
        rewrite Hacc. apply in_or_app. right. right. exact Hin.
  - split; [|split].
    + rewrite map_app. cbn [map fst].
      apply (Permutation_NoDup (Permutation_cons_append (map fst acc) key)).
      constructor; assumption.
    + intros k. rewrite !map_app, !in_app_iff. cbn [map fst In]. rewrite Hkeys. reflexivity.
    + intros k rs' Hin. rewrite Hfil. apply in_app_or in Hin. destruct Hin as [Hin|[Hin|[]]].
      * assert (Hk : k <> key).
        { intros ->. apply Hnot. apply in_map_iff. exists (key, rs'). split; auto. }
        rewrite (Hneq k Hk), app_nil_r. apply Hrs. exact Hin.
      * injection Hin as <- <-. rewrite row_eqb_refl.
        rewrite filter_none; [reflexivity|].
        intros [k' r'] Hy. cbn [fst]. destruct (row_eqb k' key) eqn:E; [|reflexivity].
        apply row_eqb_eq_r in E; [|exact Hx]. subst k'. exfalso. apply Hnot. apply Hkeys.
        apply in_map_iff. exists (key, r'). split; auto.
Qed.

Lemma ginv_fold : forall keyed,
  Forall str_key keyed ->
  ginv (fold_left (fun acc kr => group_rows acc (fst kr) (snd kr)) keyed []) keyed.
Proof.
  intros keyed H.
  apply (fold_left_inv _ _ (fun acc kr => group_rows acc (fst kr) (snd kr)) ginv str_key
           ginv_step keyed [] [] H (Forall_nil _)).
  split; [constructor|]. split; [reflexivity|]. intros k rs [].
Qed.

End WithCand.
