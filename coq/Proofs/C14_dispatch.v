(* Proofs/C14_dispatch.v — the typed whole-run functions of Spec/GenRunSpec.v ARE what the harness
   entry points of Model/Dispatch.v compute: for every generator op, if the encoded argument
   decodes (with the decoders below, which are the op's own decoding steps collected), the op's
   answer is the encoding of the typed run function on the decoded argument.  Hence the theorems of
   Properties/C14_runs.v are theorems about the values the differential harness compares with the
   Python code.  (When the argument does not decode the op answers EScript or, if a kernel of an
   earlier bloc fails first, that kernel's error: the ops interleave decoding and running bloc by
   bloc; the typed functions decode first.  The two agree on every argument that decodes.) *)
From VK Require Import Base Core GenValidation PrefInterval Generators Generators2 Dispatch.
From VK.Spec Require Import GenSpec GenRunSpec GenDecodeSpec.
From VK.Proofs Require Import Lib_rk C14_runs.

(* ------------------------------------------------------------------ *)
(** * decode-then-run *)

Lemma rmap_decode : forall (A B C : Type) (dec : A -> res B) (k : B -> res C) (f : A -> res C) l bs,
  (forall a x, dec a = inl x -> f a = k x) -> rmap dec l = inl bs -> rmap f l = rmap k bs.
Proof.
  intros A B C dec k f l. induction l as [|a l IH]; intros bs Hf H; cbn [rmap] in H |- *.
  - injection H as <-. reflexivity.
  - destruct (dec a) as [x|e] eqn:Ea; cbn [rbind] in H; [|discriminate].
    destruct (rmap dec l) as [xs|e] eqn:El; cbn [rbind] in H; [|discriminate].
    injection H as <-. cbn [rmap]. rewrite (Hf a x Ea). rewrite (IH xs Hf eq_refl). reflexivity.
Qed.

Lemma dList_decode : forall (B C : Type) (dec : val -> res B) (k : B -> res C) (f : val -> res C) v bs,
  (forall a x, dec a = inl x -> f a = k x) -> dList dec v = inl bs -> dList f v = rmap k bs.
Proof.
  intros B C dec k f v bs Hf H. unfold dList in *. destruct (dL v) as [l|e]; cbn [rbind] in H |- *; [|discriminate].
  apply (rmap_decode _ _ _ dec k f l bs Hf H).
Qed.

Lemma gen_finish_run_finish : forall pools, gen_finish pools = run_finish pools.
Proof. reflexivity. Qed.

(* splitting an encoded record into its fields (a value of the wrong shape does not decode) *)
Ltac shape a H :=
  let l := fresh "flds" in
  destruct a as [?|?|?| |?|l|?]; try discriminate H;
  repeat (let x := fresh "f" in destruct l as [|x l]; try discriminate H).
Ltac fld d H := destruct d eqn:?; cbn [rbind] in H |- *; try discriminate H.

(* ------------------------------------------------------------------ *)
(** * op 95: name / short-name Plackett-Luce *)


Theorem op_gen_pl_typed : forall bl blocs bl' bs,
  dNat bl = inl bl' -> dList dPlBloc blocs = inl bs ->
  op_gen_pl (VL [bl; blocs]) = eRes eGen (gen_pl_run bl' bs).
Proof.
  intros bl blocs bl' bs Hbl Hbs. unfold op_gen_pl, gen_pl_run. rewrite Hbl. cbn [rbind].
  rewrite (dList_decode _ _ dPlBloc (pl_pool bl') _ blocs bs); [reflexivity| |exact Hbs].
  intros a x Ha. unfold dPlBloc in Ha. shape a Ha. unfold pl_pool.
  fld (dPos f) Ha. fld (dPI f0) Ha. fld (dList (dPair dCands dCands) f1) Ha.
  injection Ha as <-. reflexivity.
Qed.

(* ------------------------------------------------------------------ *)
(** * op 96: name_Cumulative *)


Theorem op_gen_cumulative_typed : forall nv blocs nv' bs,
  dNat nv = inl nv' -> dList dCumBloc blocs = inl bs ->
  op_gen_cumulative (VL [nv; blocs]) = eRes eGen (gen_cumulative_run nv' bs).
Proof.
  intros nv blocs nv' bs Hnv Hbs. unfold op_gen_cumulative, gen_cumulative_run. rewrite Hnv. cbn [rbind].
  rewrite (dList_decode _ _ dCumBloc (cum_pool nv') _ blocs bs); [reflexivity| |exact Hbs].
  intros a x Ha. unfold dCumBloc in Ha. shape a Ha. unfold cum_pool.
  fld (dPos f) Ha. fld (dPI f0) Ha. fld (dList dCands f1) Ha.
  injection Ha as <-. reflexivity.
Qed.

(* ------------------------------------------------------------------ *)
(** * op 97: exact name_BradleyTerry *)


Theorem op_gen_bt_typed : forall blocs bs,
  dList dBtBloc blocs = inl bs -> op_gen_bt blocs = eRes eGen (gen_bt_run bs).
Proof.
  intros blocs bs Hbs. unfold op_gen_bt, gen_bt_run.
  rewrite (dList_decode _ _ dBtBloc bt_pool _ blocs bs); [reflexivity| |exact Hbs].
  intros a x Ha. unfold dBtBloc in Ha. shape a Ha. unfold bt_pool, bt_iv.
  fld (dPos f) Ha. fld (dPI f0) Ha. fld (dNat f1) Ha. fld (dList dCands f2) Ha.
  injection Ha as <-. reflexivity.
Qed.

(* ------------------------------------------------------------------ *)
(** * op 99: slate_PlackettLuce *)


Theorem op_gen_slate_pl_typed : forall blocs bs,
  dList dSplBloc blocs = inl bs -> op_gen_slate_pl blocs = eRes eGen (gen_slate_pl_run bs).
Proof.
  intros blocs bs Hbs. unfold op_gen_slate_pl, gen_slate_pl_run.
  rewrite (dList_decode _ _ dSplBloc spl_pool _ blocs bs); [reflexivity| |exact Hbs].
  intros a x Ha. unfold dSplBloc in Ha. shape a Ha.
  fld (dPos f) Ha. fld (dSlateIv f0) Ha. fld (dList (dPair dPos dNat) f1) Ha.
  fld (dList (dPair dPos dQ) f2) Ha. fld (dCands f3) Ha.
  destruct (dList dSplDraw f4) as [ds|e] eqn:Ed; cbn [rbind] in Ha; [|discriminate].
  injection Ha as <-. unfold spl_pool. cbn [spl_id spl_ivs spl_sizes spl_coh spl_zero spl_ballots].
  match goal with |- context [rmap (spl_one ?r) ds] => match goal with |- context [dList ?g f4] =>
    rewrite (dList_decode _ _ dSplDraw (spl_one r) g f4 ds); [reflexivity| |exact Ed] end end.
  intros y d Hy. unfold dSplDraw in Hy. shape y Hy. unfold spl_one.
  cbn [spl_id spl_ivs spl_sizes spl_coh spl_zero spl_ballots].
  fld (dList dQ f5) Hy. fld (dOpt dCands f6) Hy. fld (dList (dPair dPos dCands) f7) Hy.
  injection Hy as <-. reflexivity.
Qed.

(* ------------------------------------------------------------------ *)
(** * op 100: exact slate_BradleyTerry *)


Theorem op_gen_slate_bt_typed : forall blocs bs,
  dList dSbtBloc blocs = inl bs -> op_gen_slate_bt blocs = eRes eGen (gen_slate_bt_run bs).
Proof.
  intros blocs bs Hbs. unfold op_gen_slate_bt, gen_slate_bt_run.
  rewrite (dList_decode _ _ dSbtBloc sbt_pool _ blocs bs); [reflexivity| |exact Hbs].
  intros a x Ha. unfold dSbtBloc in Ha. shape a Ha.
  fld (dPos f) Ha. fld (dSlateIv f0) Ha. fld (dList (dPair dPos dNat) f1) Ha.
  fld (dPos f2) Ha. fld (dPos f3) Ha. fld (dQ f4) Ha. fld (dCands f5) Ha.
  destruct (dList dSbtDraw f6) as [ds|e] eqn:Ed; cbn [rbind] in Ha; [|discriminate].
  injection Ha as <-. unfold sbt_pool.
  cbn [sbt_id sbt_ivs sbt_sizes sbt_own sbt_opp sbt_coh sbt_zero sbt_ballots].
  match goal with |- context [rmap (sbt_one ?r) ds] => match goal with |- context [dList ?g f6] =>
    rewrite (dList_decode _ _ dSbtDraw (sbt_one r) g f6 ds); [reflexivity| |exact Ed] end end.
  intros y d Hy. unfold dSbtDraw in Hy. shape y Hy. unfold sbt_one.
  cbn [sbt_id sbt_ivs sbt_sizes sbt_own sbt_opp sbt_coh sbt_zero sbt_ballots].
  fld (dCands f7) Hy. fld (dList (dPair dPos dCands) f8) Hy.
  injection Hy as <-. reflexivity.
Qed.

(* ------------------------------------------------------------------ *)
(** * op 101: AlternatingCrossover *)


Theorem op_gen_ac_typed : forall blocs bs,
  dList dAcBloc blocs = inl bs -> op_gen_ac blocs = eRes eGen (gen_ac_run bs).
Proof.
  intros blocs bs Hbs. unfold op_gen_ac, gen_ac_run.
  rewrite (dList_decode _ _ dAcBloc ac_pool _ blocs bs); [reflexivity| |exact Hbs].
  intros a x Ha. unfold dAcBloc in Ha. shape a Ha. unfold ac_pool.
  fld (dPos f) Ha. fld (dNat f0) Ha. fld (dCands f1) Ha. fld (dCands f2) Ha.
  fld (dList dQ f3) Ha. fld (dList dQ f4) Ha. fld (dList (dPair dCands dCands) f5) Ha.
  injection Ha as <-. reflexivity.
Qed.

(* ------------------------------------------------------------------ *)
(** * op 102: spatial models *)

Theorem op_gen_spatial_typed : forall cs dists cs' ds,
  dCands cs = inl cs' -> dList (dList dQ) dists = inl ds ->
  op_gen_spatial (VL [cs; dists]) = eRes Codec.eProfile (gen_spatial_run cs' ds).
Proof.
  intros cs dists cs' ds Hcs Hds. unfold op_gen_spatial, gen_spatial_run.
  rewrite Hcs. cbn [rbind]. rewrite Hds. cbn [rbind]. reflexivity.
Qed.

(* ------------------------------------------------------------------ *)
(** * op 103: name_BradleyTerry MCMC *)


Theorem op_gen_bt_mcmc_typed : forall blocs bs,
  dList dBtmBloc blocs = inl bs -> op_gen_bt_mcmc blocs = eRes eGen (gen_bt_mcmc_run bs).
Proof.
  intros blocs bs Hbs. unfold op_gen_bt_mcmc, gen_bt_mcmc_run.
  rewrite (dList_decode _ _ dBtmBloc btm_pool _ blocs bs); [reflexivity| |exact Hbs].
  intros a x Ha. unfold dBtmBloc in Ha. shape a Ha. unfold btm_pool.
  fld (dPos f) Ha. fld (dPI f0) Ha. fld (dCands f1) Ha. fld (dList (dPair dNat dQ) f2) Ha.
  injection Ha as <-. reflexivity.
Qed.

(* ------------------------------------------------------------------ *)
(** * op 104: slate_BradleyTerry MCMC *)


Theorem op_gen_slate_mcmc_typed : forall blocs bs,
  dList dSmBloc blocs = inl bs -> op_gen_slate_mcmc blocs = eRes eGen (gen_slate_mcmc_run bs).
Proof.
  intros blocs bs Hbs. unfold op_gen_slate_mcmc, gen_slate_mcmc_run.
  rewrite (dList_decode _ _ dSmBloc sm_pool _ blocs bs); [reflexivity| |exact Hbs].
  intros a x Ha. unfold dSmBloc in Ha. shape a Ha. unfold sm_pool.
  fld (dPos f) Ha. fld (dSlateIv f0) Ha. fld (dPos f1) Ha. fld (dQ f2) Ha.
  fld (dCands f3) Ha. fld (dCands f4) Ha. fld (dList (dPair dNat dQ) f5) Ha.
  fld (dList (dList (dPair dPos dCands)) f6) Ha.
  injection Ha as <-. reflexivity.
Qed.

(* ------------------------------------------------------------------ *)
(** * op 106: CambridgeSampler *)


Theorem op_gen_cambridge_typed : forall freqs blocs fr bs,
  dList (dPair (dList dPos) dQ) freqs = inl fr -> dList dCamBloc blocs = inl bs ->
  op_gen_cambridge (VL [freqs; blocs]) = eRes eCam (gen_cambridge_run fr bs).
Proof.
  intros freqs blocs fr bs Hfr Hbs. unfold op_gen_cambridge, gen_cambridge_run. rewrite Hfr. cbn [rbind].
  rewrite (dList_decode _ _ dCamBloc (GenRunSpec.cam_pool fr) _ blocs bs); [reflexivity| |exact Hbs].
  intros a x Ha. unfold dCamBloc in Ha. shape a Ha. unfold GenRunSpec.cam_pool.
  fld (dPos f) Ha. fld (dPI f0) Ha. fld (dPos f1) Ha. fld (dPos f2) Ha. fld (dCands f3) Ha.
  fld (dCands f4) Ha. fld (dNat f5) Ha. fld (dNat f6) Ha. fld (dList (dPair (dList dPos) dCands) f7) Ha.
  injection Ha as <-. reflexivity.
Qed.
