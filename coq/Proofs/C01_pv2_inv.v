(* Proofs/C01_pv2_inv.v — the loop invariant of a PluralityVeto run (Model/PV.v) and what one
   successful eliminating round does to it. *)
From VK Require Import Base Core STV Rules PV.
From VK.Spec Require Import ScoreSpec STVSpec RunSpec.
From VK.Proofs Require Import Lib_sets C04_scoring Elect C12_edit C20_validation STV_tb STV_inv C08_anon
  C01_lib C01_pv C01_pv2_lib C01_pv2_veto C01_pv2_scores.
From Coq Require Import Permutation Lia Lqa.

Section Inv.
Variable cand : Type.
Variable ceqb : cand -> cand -> bool.
Hypothesis ceqb_spec : forall a b, reflect (a = b) (ceqb a b).

Notation cset := (cset cand).
Notation ranking := (ranking cand).
Notation ballot := (ballot cand).
Notation profile := (profile cand).
Notation scores := (scores cand).
Notation estate := (estate cand).
Notation mstate := (mstate cand).
Notation flat := (flat cand).
Notation wf_ranking := (wf_ranking cand).
Notation wf_profile := (wf_profile cand).
Notation first_place_votes := (first_place_votes cand ceqb).
Notation memb := (memb cand ceqb).
Notation scrub := (scrub cand ceqb).
Notation set_diff := (set_diff cand ceqb).
Notation dedup := (dedup cand ceqb).
Notation has_ranking := (has_ranking cand).
Notation pv_scores := (pv_scores cand ceqb).
Notation pv_obj := (pv_obj cand).
Notation pv_step := (pv_step cand ceqb).
Notation veto_loop := (veto_loop cand ceqb).
Notation remove_cand_prof := (remove_cand_prof cand ceqb).
Notation score_to_ranking := (score_to_ranking cand).
Notation all_elected := (all_elected cand).
Notation all_eliminated := (all_eliminated cand).
Notation elected_in := (elected_in cand).
Notation eliminated_in := (eliminated_in cand).
Notation parts := (parts cand).
Notation live := (live cand).
Notation okb := (okb cand).
Notation nlive := (nlive cand).
Notation tb_rec_ok := (tb_rec_ok cand ceqb).

Variable cs : cset.                 (* the candidates of the input profile *)
Hypothesis Hcs : NoDup cs.
Variable tb : option tb_kind.
Variable nb : nat.                  (* number of unit ballots *)
Variable notie : bool.              (* no input ballot has a tied position *)

Definition standing (o : pv_obj) : cset := set_diff cs (pv_elim cand o).

(* candidates with a non-positive tally *)
Definition zeros (d : scores) : list cand := map fst (filter (fun q => Qle_bool (snd q) 0) d).

Record pv_inv (o : pv_obj) (p : profile) (prev : estate) (older : list estate) : Prop := mkInv {
  iv_elim_nd : NoDup (pv_elim cand o);
  iv_elim_in : incl (pv_elim cand o) cs;
  iv_bal : ballots p = pv_ballots cand o;
  iv_len : length (pv_ballots cand o) = nb;
  iv_order : Permutation (pv_order cand o) (seq 0 nb);
  iv_pc_nd : NoDup (cands p);
  iv_pc : forall c, In c (cands p) <-> In c (standing o);
  iv_okb : Forall (okb (standing o)) (pv_ballots cand o);
  iv_tie : notie = true -> Forall (fun b => has_tie cand b = false) (pv_ballots cand o);
  iv_el : Forall (fun st => elected st = [[]]) (prev :: older);
  iv_x : Permutation (all_eliminated (prev :: older)) (pv_elim cand o);
  iv_rem : remaining prev = score_to_ranking (escores prev) true;
  iv_knd : NoDup (map fst (escores prev));
  iv_keys : forall c, In c (map fst (escores prev)) <-> In c (standing o);
  iv_nn : Forall (fun q => 0 <= snd q) (escores prev);
  iv_sum : qsum (map snd (escores prev)) == Qnat (nlive (pv_ballots cand o));
  iv_first : older <> [] -> forall c, In c (standing o) ->
             exists b, In b (pv_ballots cand o) /\ In c (hd [] (rk b));
  iv_r0 : older = [] ->
          pv_elim cand o = [] /\ (forall b, In b (pv_ballots cand o) -> live cs b) /\
          first_place_votes (mkProfile (pv_ballots cand o) cs) = inl (escores prev);
  iv_rnd : rnd prev = Z.of_nat (length older);
  iv_parts : parts cs (prev :: older)
}.

(* ------------------------------------------------------------------ *)
(** * sets *)

Lemma standing_NoDup : forall o, NoDup (standing o).
Proof. intros o. apply (set_diff_NoDup cand ceqb). exact Hcs. Qed.

Lemma standing_In : forall o c, In c (standing o) <-> In c cs /\ ~ In c (pv_elim cand o).
Proof. intros o c. apply (set_diff_In cand ceqb ceqb_spec). Qed.

Lemma standing_length : forall o, NoDup (pv_elim cand o) -> incl (pv_elim cand o) cs ->
  (length (standing o) + length (pv_elim cand o) = length cs)%nat.
Proof.
  intros o Hnd Hincl.
  pose proof (app_set_diff_perm cand ceqb ceqb_spec (pv_elim cand o) cs Hnd Hcs Hincl) as Hp.
  apply Permutation_length in Hp. rewrite app_length in Hp. unfold standing. lia.
Qed.

Lemma zeros_incl : forall d : scores, incl (zeros d) (map fst d).
Proof.
  intros d c Hc. unfold zeros in Hc. apply in_map_iff in Hc. destruct Hc as [q [<- Hq]].
  apply filter_In in Hq. apply in_map. apply Hq.
Qed.

Lemma zeros_iff : forall (d : scores) c, NoDup (map fst d) ->
  (In c (zeros d) <-> exists q, In (c, q) d /\ q <= 0).
Proof.
  intros d c Hnd. unfold zeros. rewrite in_map_iff. split.
  - intros [[c' q] [E Hq]]. cbn [fst] in E. subst c'. apply filter_In in Hq. destruct Hq as [Hq Hle].
    exists q. split; [exact Hq|]. apply Qle_bool_iff. exact Hle.
  - intros [q [Hq Hle]]. exists (c, q). split; [reflexivity|]. apply filter_In. split; [exact Hq|].
    apply Qle_bool_iff. exact Hle.
Qed.

Lemma eliminated_in_single : forall (st : estate) (l : cset), eliminated st = [l] -> eliminated_in st = l.
Proof.
  intros st l H. unfold STVSpec.eliminated_in. rewrite H. destruct l as [|x l]; [reflexivity|].
  cbn [STV.real_groups]. unfold Core.flat. cbn [concat]. apply app_nil_r.
Qed.

Lemma nlive_order_seq : forall bs : list ballot, nlive_order cand bs (seq 0 (length bs)) = nlive bs.
Proof.
  intros bs. unfold nlive_order, C01_pv2_scores.nlive.
  assert (H : forall pre, length (filter (live_at cand (pre ++ bs)) (seq (length pre) (length bs)))
                          = length (filter has_ranking bs)).
  { induction bs as [|b bs IH]; intros pre; [reflexivity|]. cbn [length seq filter].
    assert (E : live_at cand (pre ++ b :: bs) (length pre) = has_ranking b).
    { unfold live_at. rewrite nth_error_app2 by lia. rewrite Nat.sub_diag. reflexivity. }
    rewrite E. specialize (IH (pre ++ [b])). rewrite <- app_assoc in IH. cbn [app] in IH.
    rewrite app_length in IH. cbn [length] in IH. replace (length pre + 1)%nat with (S (length pre)) in IH by lia.
    destruct (has_ranking b); cbn [length]; rewrite IH; reflexivity. }
  exact (H []).
Qed.

Lemma nlive_order_perm : forall (bs : list ballot) l l', Permutation l l' ->
  nlive_order cand bs l = nlive_order cand bs l'.
Proof.
  intros bs l l' H. unfold nlive_order. apply Permutation_length.
  induction H as [|x l l' _ IH|x y l|l l' l'' _ IH1 _ IH2]; cbn [filter].
  - constructor.
  - destruct (live_at cand bs x); [constructor|]; exact IH.
  - destruct (live_at cand bs x), (live_at cand bs y); try apply Permutation_refl. apply perm_swap.
  - eapply Permutation_trans; eassumption.
Qed.

(* ------------------------------------------------------------------ *)
(** * consequences of the invariant *)

Section WithInv.
Variables (o : pv_obj) (p : profile) (prev : estate) (older : list estate).
Hypothesis Hinv : pv_inv o p prev older.

Lemma inv_live_in : forall b, In b (pv_ballots cand o) -> rk b <> [] -> live (standing o) b.
Proof.
  intros b Hb Hr. pose proof (iv_okb _ _ _ _ Hinv) as Hok. rewrite Forall_forall in Hok.
  exact (okb_live cand _ _ (Hok b Hb) Hr).
Qed.

Lemma inv_zero_flag :
  (if Z.eqb (rnd prev) 0 then zeros (escores prev) else [])
  = match older with [] => zeros (escores prev) | _ => [] end.
Proof.
  rewrite (iv_rnd _ _ _ _ Hinv). destruct older as [|x l]; [reflexivity|].
  cbn [length]. destruct (Z.eqb_spec (Z.of_nat (S (length l))) 0) as [E|_]; [lia|reflexivity].
Qed.

Lemma inv_standing_count : (length (standing o) + length (pv_elim cand o) = length cs)%nat.
Proof. apply standing_length; [apply (iv_elim_nd _ _ _ _ Hinv)|apply (iv_elim_in _ _ _ _ Hinv)]. Qed.

Lemma inv_keys_perm : Permutation (flat (remaining prev)) (standing o).
Proof.
  rewrite (iv_rem _ _ _ _ Hinv).
  eapply Permutation_trans; [apply (score_to_ranking_flat_perm_all cand)|].
  apply NoDup_Permutation; [apply (iv_knd _ _ _ _ Hinv)|apply standing_NoDup|apply (iv_keys _ _ _ _ Hinv)].
Qed.

Lemma inv_tb_profile_ok : forall k, tb_profile_ok cand (Some p) (Some k) (standing o).
Proof.
  intros k. destruct k; cbn [tb_profile_ok]; try exact I; intros pr Hpr; injection Hpr as <-;
    (split; [apply (iv_pc_nd _ _ _ _ Hinv)|intros c Hc; apply (iv_pc _ _ _ _ Hinv); exact Hc]).
Qed.

(* every standing candidate heads a ballot, once the first round is over *)
Lemma inv_nlive_pos : older <> [] -> standing o <> [] -> (0 < nlive (pv_ballots cand o))%nat.
Proof.
  intros Ho Hs. destruct (standing o) as [|c l] eqn:E; [contradiction Hs; reflexivity|].
  destruct (iv_first _ _ _ _ Hinv Ho c) as [b [Hb Hc]]; [rewrite E; left; reflexivity|].
  assert (Hr : has_ranking b = true).
  { apply (has_ranking_iff cand). intros Er. rewrite Er in Hc. destruct Hc. }
  unfold C01_pv2_scores.nlive.
  assert (Hin : In b (filter has_ranking (pv_ballots cand o))) by (apply filter_In; split; assumption).
  destruct (filter has_ranking (pv_ballots cand o)); [destruct Hin|cbn [length]; lia].
Qed.

End WithInv.

(* ------------------------------------------------------------------ *)
(** * one successful eliminating round *)

Definition hit_list (hit : option cand) : cset := match hit with Some c => [c] | None => [] end.

(* the candidates a round removes: in round 1 those without a positive tally, then the one struck *)
Definition round_elim (prev : estate) (older : list estate) (hit : option cand) : cset :=
  match older with [] => zeros (escores prev) | _ => [] end ++ hit_list hit.

Lemma scrub_map_okb : forall (S S' removed : cset) (bs : list ballot),
  Forall (okb S) bs -> (forall c, In c S -> ~ In c removed -> In c S') ->
  Forall (okb S') (map (scrub removed) bs).
Proof.
  intros S S' removed bs H HS'. apply Forall_forall. intros b' Hb'. apply in_map_iff in Hb'.
  destruct Hb' as [b [<- Hb]]. rewrite Forall_forall in H. eapply (scrub_okb cand ceqb ceqb_spec); [apply H; exact Hb|exact HS'].
Qed.

Theorem pv_step_ok : forall m n (o : pv_obj) (p : profile) (prev : estate) (older : list estate)
                            (s s' : mstate) (o' : pv_obj) (np : profile) (st : estate),
  pv_inv o p prev older ->
  (Z.of_nat n - Z.of_nat (length (pv_elim cand o)) =? m)%Z = false ->
  pv_step m tb n o p prev s = inl ((o', np, st), s') ->
  pv_inv o' np st (prev :: older) /\
  exists hit,
    eliminated st = [dedup (round_elim prev older hit)] /\
    elected st = [[]] /\
    pv_elim cand o' = pv_elim cand o ++ dedup (round_elim prev older hit) /\
    incl (round_elim prev older hit) (standing o) /\
    match hit with
    | Some c => In c (standing o)
    | None => nlive (pv_ballots cand o) = 0%nat
    end /\
    Forall (tb_rec_ok (pv_ballots cand o) p tb) (tiebreaks st) /\ (length (tiebreaks st) <= 1)%nat /\
    (0 < nb)%nat /\
    exists idx, veto_loop (pv_order cand o) 0 (pv_ballots cand o) p tb (escores prev) [] s
                = inl ((idx, hit, tiebreaks st), s').
Proof.
  intros m n o p prev older s s' o' np st Hinv Hm H.
  unfold PV.pv_step in H. cbv zeta in H. rewrite Hm in H.
  pose proof (inv_zero_flag _ _ _ _ Hinv) as Hzf. unfold zeros in Hzf.
  destruct (pv_order cand o) as [|i0 ord0] eqn:Eord; [exfalso; exact (pvm_fail_inv _ _ _ H)|].
  rewrite <- Eord in H.
  apply pvm_bind_inv in H. destruct H as [[[idx hit] tbs] [s1 [Hveto H]]]. cbv beta iota in H.
  rewrite Hzf in H. clear Hzf.
  apply pvm_lift_bind_inv in H. destruct H as [np0 [Hrm H]].
  apply pvm_lift_bind_inv in H. destruct H as [d [Hsc H]].
  apply pvm_ret_inv in H. destruct H as [H Hs']. inversion H; subst o' np0 st. clear H. subst s'.
  assert (Eelim : (match older with
                    | [] => map fst (filter (fun q : cand * Q => Qle_bool (snd q) 0) (escores prev))
                    | _ :: _ => []
                    end ++ match hit with Some c => [c] | None => [] end) = round_elim prev older hit)
    by reflexivity.
  rewrite Eelim in *. clear Eelim.
  set (elim := round_elim prev older hit) in *.
  set (S0 := standing o).
  pose proof (iv_okb _ _ _ _ Hinv) as Hokb. fold S0 in Hokb.
  (* the struck candidate *)
  assert (Hhit : match hit with Some c => In c S0 | None => nlive (pv_ballots cand o) = 0%nat end).
  { destruct hit as [c|].
    - destruct (veto_hit_in cand ceqb ceqb_spec _ _ _ _ _ _ _ _ _ _ _ _ Hveto) as [_ [i [b [g [_ [Hb [Hg Hc]]]]]]].
      assert (Hbin : In b (pv_ballots cand o)) by (eapply nth_error_In; exact Hb).
      assert (Hr : rk b <> []) by (intros E; rewrite E in Hg; destruct Hg).
      destruct (inv_live_in _ _ _ _ Hinv b Hbin Hr) as [[_ [_ [_ Hincl]]] _].
      apply Hincl. eapply in_group_flat; eassumption.
    - destruct (veto_none_progress cand ceqb ceqb_spec _ _ _ _ _ _ _ _ _ _ _ Hveto
                  (iv_knd _ _ _ _ Hinv) (iv_nn _ _ _ _ Hinv)) as [Hz|Hlt].
      + rewrite (nlive_order_perm _ _ _ (iv_order _ _ _ _ Hinv)) in Hz.
        rewrite <- (iv_len _ _ _ _ Hinv), nlive_order_seq in Hz. exact Hz.
      + exfalso. rewrite (nlive_order_perm _ _ _ (iv_order _ _ _ _ Hinv)) in Hlt.
        rewrite <- (iv_len _ _ _ _ Hinv), nlive_order_seq in Hlt.
        rewrite (iv_sum _ _ _ _ Hinv) in Hlt. exact (Qlt_irrefl _ Hlt). }
  assert (HelimS : incl elim S0).
  { intros c Hc. unfold elim, round_elim in Hc. apply in_app_or in Hc. destruct Hc as [Hc|Hc].
    - destruct older; [|destruct Hc]. apply (iv_keys _ _ _ _ Hinv). apply zeros_incl. exact Hc.
    - destruct hit as [c0|]; [|destruct Hc]. destruct Hc as [<-|[]]. exact Hhit. }
  assert (Hdd : set_diff (dedup elim) (pv_elim cand o) = dedup elim).
  { unfold Core.set_diff. apply filter_all_true. intros c Hc. apply negb_true_iff.
    apply (Lib_sets.memb_false_iff cand ceqb ceqb_spec).
    apply (proj1 (dedup_In cand ceqb ceqb_spec _ _)) in Hc. apply HelimS in Hc. apply standing_In in Hc. apply Hc. }
  rewrite Hdd.
  set (o' := mkPV cand (rotate (pv_order cand o) match hit with Some _ => idx | None => (length (pv_order cand o) - 1)%nat end)
                  (ballots np) (pv_elim cand o ++ dedup elim)).
  set (S1 := standing o').
  assert (HS1 : forall c, In c S1 <-> In c S0 /\ ~ In c elim).
  { intros c. unfold S1, S0. rewrite !standing_In. unfold o'. cbn [pv_elim]. rewrite in_app_iff.
    rewrite (dedup_In cand ceqb ceqb_spec). tauto. }
  (* the reduced profile *)
  destruct (remove_prof_cands cand ceqb ceqb_spec elim false true p (iv_pc_nd _ _ _ _ Hinv))
    as [np' [Hrm' [Hnb [Hne Hnil]]]].
  rewrite Hrm in Hrm'. injection Hrm' as <-.
  assert (Hnb' : ballots np = map (scrub elim) (pv_ballots cand o)).
  { rewrite Hnb, (iv_bal _ _ _ _ Hinv). reflexivity. }
  assert (Hokb1 : Forall (okb S1) (ballots np)).
  { rewrite Hnb'. eapply scrub_map_okb; [exact Hokb|]. intros c Hc Hn. apply HS1. split; assumption. }
  destruct (pv_scores_facts cand ceqb ceqb_spec S1 _ d Hokb1 Hsc) as [Hknd [Hkeys [Hnn Hsum]]].
  (* every standing candidate still heads a ballot *)
  assert (Hfirst : forall c, In c S1 -> exists b, In b (ballots np) /\ In c (hd [] (rk b))).
  { intros c Hc. apply HS1 in Hc. destruct Hc as [Hc0 Hn].
    assert (Hb : exists b, In b (pv_ballots cand o) /\ In c (hd [] (rk b))).
    { destruct older as [|x l] eqn:Eo.
      - destruct (iv_r0 _ _ _ _ Hinv eq_refl) as [_ [Hlive Hfpv]].
        assert (Hwf : wf_profile (mkProfile (pv_ballots cand o) cs)).
        { split; [exact Hcs|]. cbn [ballots cands]. apply Forall_forall. intros b Hb. apply (Hlive b Hb). }
        destruct (fpv_unit_facts cand ceqb ceqb_spec _ _ Hwf (fun b Hb => proj1 (proj2 (Hlive b Hb))) Hfpv)
          as [_ [_ [_ Hpos]]].
        apply (iv_keys _ _ _ _ Hinv) in Hc0.
        destruct (lookup0_In_snd cand ceqb ceqb_spec _ _ Hc0) as [q [Hq _]].
        destruct (Qlt_le_dec 0 q) as [Hlt|Hle].
        + exact (Hpos c q Hq Hlt).
        + exfalso. apply Hn. unfold elim, round_elim. apply in_or_app. left.
          apply (zeros_iff _ _ (iv_knd _ _ _ _ Hinv)). exists q. split; assumption.
      - apply (iv_first _ _ _ _ Hinv); [discriminate|exact Hc0]. }
    destruct Hb as [b [Hb Hc]]. exists (scrub elim b). split.
    - rewrite Hnb'. apply in_map. exact Hb.
    - rewrite (scrub_rk cand ceqb). apply (strip_hd cand ceqb ceqb_spec); assumption. }
  assert (Hkeys1 : forall c, In c (map fst d) <-> In c S1).
  { intros c. rewrite Hkeys. split.
    - intros [b [Hb Hc]]. rewrite Forall_forall in Hokb1.
      assert (Hr : rk b <> []) by (intros E; rewrite E in Hc; destruct Hc).
      destruct (okb_live cand _ _ (Hokb1 b Hb) Hr) as [[_ [_ [_ Hincl]]] _]. apply Hincl. exact Hc.
    - intros Hc. destruct (Hfirst c Hc) as [b [Hb Hh]]. exists b. split; [exact Hb|apply (hd_in_flat cand); exact Hh]. }
  assert (Helim_nd : NoDup (pv_elim cand o ++ dedup elim)).
  { apply NoDup_app_intro; [apply (iv_elim_nd _ _ _ _ Hinv)|apply (dedup_NoDup cand ceqb ceqb_spec)|].
    intros c Hc Hd. apply (proj1 (dedup_In cand ceqb ceqb_spec _ _)) in Hd. apply HelimS in Hd.
    apply standing_In in Hd. apply Hd. exact Hc. }
  assert (Helim_in : incl (pv_elim cand o ++ dedup elim) cs).
  { intros c Hc. apply in_app_or in Hc. destruct Hc as [Hc|Hc]; [apply (iv_elim_in _ _ _ _ Hinv); exact Hc|].
    apply (proj1 (dedup_In cand ceqb ceqb_spec _ _)) in Hc. apply HelimS in Hc. apply standing_In in Hc. apply Hc. }
  set (st := mkState (rnd prev + 1) (score_to_ranking d true) (no_group cand) [dedup elim] tbs d).
  assert (Hxst : eliminated_in st = dedup elim) by (apply eliminated_in_single; reflexivity).
  assert (Hx1 : Permutation (all_eliminated (st :: prev :: older)) (pv_elim cand o ++ dedup elim)).
  { rewrite (all_eliminated_cons cand), Hxst.
    eapply Permutation_trans; [apply Permutation_app_comm|]. apply Permutation_app_tail. apply (iv_x _ _ _ _ Hinv). }
  assert (Hel1 : Forall (fun st0 => elected st0 = [[]]) (st :: prev :: older)).
  { constructor; [reflexivity|apply (iv_el _ _ _ _ Hinv)]. }
  split.
  - constructor; try unfold o'; cbn [pv_elim pv_ballots pv_order escores remaining rnd].
    + exact Helim_nd.
    + exact Helim_in.
    + reflexivity.
    + rewrite Hnb', map_length. apply (iv_len _ _ _ _ Hinv).
    + eapply Permutation_trans; [apply pv2_rotate_perm|apply (iv_order _ _ _ _ Hinv)].
    + destruct (set_diff (cands p) elim) as [|x l] eqn:Esd.
      * rewrite (Hnil eq_refl). unfold Core.cast_cands. apply (dedup_NoDup cand ceqb ceqb_spec).
      * apply Hne. discriminate.
    + intros c. change (In c (cands np) <-> In c S1). rewrite HS1. destruct (set_diff (cands p) elim) as [|x l] eqn:Esd.
      * rewrite (Hnil eq_refl), (cast_cands_In cand ceqb ceqb_spec). split.
        -- intros [b [Hb [Hw Hc]]]. rewrite <- Hnb in Hb. rewrite Forall_forall in Hokb1.
           destruct (Hokb1 b Hb) as [[_ Hw0]|[[_ [_ [_ Hincl]]] [_ Hsc0]]].
           ++ rewrite Hw0 in Hw. exfalso. exact (Qlt_irrefl _ Hw).
           ++ unfold Core.ballot_cands in Hc. rewrite Hsc0 in Hc. cbn [map] in Hc. rewrite app_nil_r in Hc.
              apply HS1. apply Hincl. exact Hc.
        -- intros [Hc Hn]. exfalso.
           assert (Hin : In c (set_diff (cands p) elim)).
           { apply (set_diff_In cand ceqb ceqb_spec). split; [apply (iv_pc _ _ _ _ Hinv); exact Hc|exact Hn]. }
           rewrite Esd in Hin. destruct Hin.
      * destruct (Hne ltac:(discriminate)) as [_ [_ Hiff]]. rewrite Hiff, (iv_pc _ _ _ _ Hinv). reflexivity.
    + exact Hokb1.
    + intros Hnt. rewrite Hnb'. apply Forall_forall. intros b' Hb'. apply in_map_iff in Hb'.
      destruct Hb' as [b [<- Hb]]. apply (scrub_has_tie cand ceqb).
      pose proof (iv_tie _ _ _ _ Hinv Hnt) as Ht. rewrite Forall_forall in Ht. exact (Ht b Hb).
    + exact Hel1.
    + exact Hx1.
    + reflexivity.
    + exact Hknd.
    + exact Hkeys1.
    + exact Hnn.
    + exact Hsum.
    + intros _. exact Hfirst.
    + discriminate.
    + change (rnd prev + 1 = Z.of_nat (S (length older)))%Z. rewrite (iv_rnd _ _ _ _ Hinv). lia.
    + cbn [C01_pv2_lib.parts]. split; [|apply (iv_parts _ _ _ _ Hinv)].
      rewrite (all_elected_none cand _ Hel1). cbn [app].
      eapply Permutation_trans; [apply Permutation_app; [|exact Hx1]|].
      { cbn [remaining st]. eapply Permutation_trans; [apply (score_to_ranking_flat_perm_all cand)|].
        apply NoDup_Permutation; [exact Hknd|apply standing_NoDup|exact Hkeys1]. }
      eapply Permutation_trans; [apply Permutation_app_comm|].
      exact (app_set_diff_perm cand ceqb ceqb_spec _ cs Helim_nd Hcs Helim_in).
  - exists hit. fold elim. split; [reflexivity|]. split; [reflexivity|]. split; [reflexivity|].
    split; [exact HelimS|]. split; [exact Hhit|].
    cbn [tiebreaks].
    destruct (veto_tbs cand ceqb _ _ _ _ _ _ _ _ _ _ _ _ Hveto (Forall_nil _)) as [Ht1 Ht2]; [cbn [length]; lia|].
    split; [exact Ht1|]. split; [exact Ht2|]. split.
    + pose proof (Permutation_length (iv_order _ _ _ _ Hinv)) as Hlen. rewrite Eord, seq_length in Hlen.
      cbn [length] in Hlen. lia.
    + exists idx. rewrite <- Eord. exact Hveto.
Qed.

End Inv.
