(* Proofs/C18_order.v — the ORDER of the ballots load_csv emits (first occurrence of each row
   pattern), the exact value of load_csv on every well-formed table, and the to_csv -> load_csv
   round trip (literal layout: refuted; CVR layout: holds up to blank padding).
   Vocabulary: Spec/LoaderSpec.v, Spec/LoaderOrderSpec.v.  Builds on Proofs/C18_loaders.v. *)
From VK Require Import Base Core Loaders.
From VK.Spec Require Import EditSpec Content LoaderSpec LoaderOrderSpec.
From VK.Proofs Require Import C11_profile Lib_rk C18_loaders.
From Coq Require Import Lia Lqa Permutation Setoid Morphisms.

#[local] Arguments CBlank {cand}.
#[local] Arguments CStr {cand}.
#[local] Arguments CNum {cand}.
#[local] Arguments CId {cand}.

(* ====================================================================== *)
(* 1. dedup_first: generic facts                                           *)
(* ====================================================================== *)

Section DedupFirst.
Variable A : Type.
Variable eqb : A -> A -> bool.

(* on the elements of l, [eqb] decides equality *)
Definition eq_on (l : list A) : Prop := forall x y, In x l -> (eqb x y = true <-> x = y).

Lemma eq_on_tail : forall z l, eq_on (z :: l) -> eq_on l.
Proof. intros z l H x y Hx. apply H. right. exact Hx. Qed.

Lemma eq_on_refl : forall l x, eq_on l -> In x l -> eqb x x = true.
Proof. intros l x H Hx. apply (H x x Hx). reflexivity. Qed.

Lemma eq_on_neq : forall l x y, eq_on l -> In x l -> x <> y -> eqb x y = false.
Proof.
  intros l x y H Hx Hne. destruct (eqb x y) eqn:E; [|reflexivity].
  apply (H x y Hx) in E. contradiction.
Qed.

Lemma eq_on_In_dec : forall l x, eq_on l -> In x l \/ ~ In x l.
Proof.
  induction l as [|z l IH]; intros x H.
  - right. intros [].
  - destruct (eqb z x) eqn:E.
    + left. left. apply (H z x (or_introl eq_refl)). exact E.
    + destruct (IH x (eq_on_tail _ _ H)) as [Hin|Hnot].
      * left. right. exact Hin.
      * right. intros [->|Hin]; [|contradiction].
        rewrite (eq_on_refl _ x H (or_introl eq_refl)) in E. discriminate.
Qed.

Lemma first_split : forall l y, eq_on l -> In y l ->
  exists b c, l = b ++ y :: c /\ ~ In y b.
Proof.
  induction l as [|e l IH]; intros y H Hy; [destruct Hy|].
  destruct (eqb e y) eqn:E.
  - apply (H e y (or_introl eq_refl)) in E. subst e. exists [], l. split; [reflexivity|intros []].
  - destruct Hy as [->|Hy].
    + rewrite (eq_on_refl _ y H (or_introl eq_refl)) in E. discriminate.
    + destruct (IH y (eq_on_tail _ _ H) Hy) as (b & c & -> & Hb).
      exists (e :: b), c. split; [reflexivity|].
      intros [->|Hin]; [|contradiction].
      rewrite (eq_on_refl _ y H (or_introl eq_refl)) in E. discriminate.
Qed.

Lemma dedup_first_cons : forall z l,
  dedup_first eqb (z :: l) = z :: filter (fun y => negb (eqb z y)) (dedup_first eqb l).
Proof. reflexivity. Qed.

Lemma dedup_first_incl : forall l x, In x (dedup_first eqb l) -> In x l.
Proof.
  induction l as [|z l IH]; intros x Hx; [destruct Hx|].
  rewrite dedup_first_cons in Hx. destruct Hx as [->|Hx]; [left; reflexivity|].
  apply filter_In in Hx. right. apply IH. apply Hx.
Qed.

Lemma dedup_first_In : forall l x, eq_on l -> (In x (dedup_first eqb l) <-> In x l).
Proof.
  intros l x H. split; [apply dedup_first_incl|].
  revert H. induction l as [|z l IH]; intros H Hx; [destruct Hx|].
  rewrite dedup_first_cons. destruct (eqb z x) eqn:E.
  - left. apply (H z x (or_introl eq_refl)). exact E.
  - destruct Hx as [->|Hx].
    + left. reflexivity.
    + right. apply filter_In. split; [apply IH; [apply (eq_on_tail _ _ H)|exact Hx]|].
      rewrite E. reflexivity.
Qed.

Lemma dedup_first_NoDup : forall l, eq_on l -> NoDup (dedup_first eqb l).
Proof.
  induction l as [|z l IH]; intros H; [constructor|].
  rewrite dedup_first_cons. constructor.
  - intros Hin. apply filter_In in Hin. destruct Hin as [_ Hz].
    rewrite (eq_on_refl _ z H (or_introl eq_refl)) in Hz. discriminate.
  - apply NoDup_filter. apply IH. apply (eq_on_tail _ _ H).
Qed.

(* adding one element at the end *)
Lemma dedup_first_snoc : forall l x, eq_on l ->
  (In x l -> dedup_first eqb (l ++ [x]) = dedup_first eqb l) /\
  (~ In x l -> dedup_first eqb (l ++ [x]) = dedup_first eqb l ++ [x]).
Proof.
  induction l as [|z l IH]; intros x H.
  - split; [intros []|]. intros _. reflexivity.
  - destruct (IH x (eq_on_tail _ _ H)) as [IH1 IH2].
    cbn [app]. rewrite !dedup_first_cons. split.
    + intros Hin. destruct (eq_on_In_dec l x (eq_on_tail _ _ H)) as [Hl|Hl].
      * rewrite (IH1 Hl). reflexivity.
      * destruct Hin as [->|Hin]; [|contradiction].
        rewrite (IH2 Hl), filter_app. cbn [filter].
        rewrite (eq_on_refl _ x H (or_introl eq_refl)). cbn [negb]. rewrite app_nil_r. reflexivity.
    + intros Hnot. assert (Hl : ~ In x l) by (intros Hl; apply Hnot; right; exact Hl).
      assert (Hne : z <> x) by (intros ->; apply Hnot; left; reflexivity).
      rewrite (IH2 Hl), filter_app. cbn [filter].
      rewrite (eq_on_neq _ z x H (or_introl eq_refl) Hne). cbn [negb]. reflexivity.
Qed.

(* ---------- before / filter ---------- *)

Lemma filter_split : forall (p : A -> bool) l a x r, filter p l = a ++ x :: r ->
  exists a' r', l = a' ++ x :: r' /\ filter p a' = a /\ filter p r' = r /\ p x = true.
Proof.
  intros p. induction l as [|e l IH]; intros a x r H; cbn [filter] in H.
  - destruct a; discriminate.
  - destruct (p e) eqn:E.
    + destruct a as [|e' a]; cbn [app] in H.
      * injection H as -> Hr. exists [], l. repeat split; try reflexivity; assumption.
      * injection H as -> Hr. destruct (IH a x r Hr) as (a' & r' & -> & Ha & Hr' & Hx).
        exists (e' :: a'), r'. split; [reflexivity|]. split; [|split; assumption].
        cbn [filter]. rewrite E, Ha. reflexivity.
    + destruct (IH a x r H) as (a' & r' & -> & Ha & Hr' & Hx).
      exists (e :: a'), r'. split; [reflexivity|]. split; [|split; assumption].
      cbn [filter]. rewrite E. exact Ha.
Qed.

Lemma before_filter : forall (p : A -> bool) x y l,
  before x y (filter p l) <-> before x y l /\ p x = true /\ p y = true.
Proof.
  intros p x y l. split.
  - intros (a & b & c & H). apply filter_split in H.
    destruct H as (a' & r' & -> & _ & Hr & Hx). apply filter_split in Hr.
    destruct Hr as (b' & c' & -> & _ & _ & Hy).
    split; [exists a', b', c'; reflexivity|]. split; assumption.
  - intros ((a & b & c & ->) & Hx & Hy).
    exists (filter p a), (filter p b), (filter p c).
    rewrite filter_app. cbn [filter]. rewrite Hx, filter_app. cbn [filter]. rewrite Hy. reflexivity.
Qed.

Lemma before_cons : forall z x y (l : list A), before x y l -> before x y (z :: l).
Proof. intros z x y l (a & b & c & ->). exists (z :: a), b, c. reflexivity. Qed.

(* ---------- the order of dedup_first ---------- *)

Theorem dedup_first_order : forall l x y, eq_on l ->
  (before x y (dedup_first eqb l) <-> first_before x y l).
Proof.
  induction l as [|z l IH]; intros x y H.
  - split.
    + intros (a & b & c & Habs). destruct a; discriminate.
    + intros (a & b & c & Habs & _). destruct a; discriminate.
  - pose proof (eq_on_tail _ _ H) as Ht. rewrite dedup_first_cons. split.
    + intros (a & b & c & Hs). destruct a as [|z' a]; cbn [app] in Hs.
      * injection Hs as <- HF.
        assert (Hy : In y (filter (fun y0 => negb (eqb z y0)) (dedup_first eqb l))).
        { rewrite HF. apply in_or_app. right. left. reflexivity. }
        apply filter_In in Hy. destruct Hy as [Hy Hzy].
        apply dedup_first_incl in Hy.
        assert (Hne : y <> z).
        { intros ->. rewrite (eq_on_refl _ z H (or_introl eq_refl)) in Hzy. discriminate. }
        destruct (first_split l y Ht Hy) as (b' & c' & -> & Hb').
        exists [], b', c'. split; [reflexivity|]. split; [intros []|].
        cbn [app]. intros [Heq|Hin]; [apply Hne; symmetry; exact Heq|contradiction].
      * injection Hs as <- HF.
        assert (Hb : before x y (filter (fun y0 => negb (eqb z y0)) (dedup_first eqb l)))
          by (exists a, b, c; exact HF).
        apply before_filter in Hb. destruct Hb as (Hb & Hzx & Hzy).
        apply (IH x y Ht) in Hb. destruct Hb as (a1 & b1 & c1 & -> & Hxa & Hya).
        assert (Hnx : x <> z).
        { intros ->. rewrite (eq_on_refl _ z H (or_introl eq_refl)) in Hzx. discriminate. }
        assert (Hny : y <> z).
        { intros ->. rewrite (eq_on_refl _ z H (or_introl eq_refl)) in Hzy. discriminate. }
        exists (z :: a1), b1, c1. split; [reflexivity|]. split.
        -- intros [Heq|Hin]; [apply Hnx; symmetry; exact Heq|contradiction].
        -- cbn [app]. intros [Heq|Hin]; [apply Hny; symmetry; exact Heq|contradiction].
    + intros (a & b & c & Hs & Hxa & Hya). destruct a as [|z' a]; cbn [app] in Hs.
      * injection Hs as <- ->. cbn [app] in Hya.
        assert (Hne : z <> y) by (intros ->; apply Hya; left; reflexivity).
        assert (Hy : In y (filter (fun y0 => negb (eqb z y0)) (dedup_first eqb (b ++ y :: c)))).
        { apply filter_In. split.
          - apply (dedup_first_In _ y Ht). apply in_or_app. right. left. reflexivity.
          - rewrite (eq_on_neq _ z y H (or_introl eq_refl) Hne). reflexivity. }
        apply in_split in Hy. destruct Hy as (b2 & c2 & ->).
        exists [], b2, c2. reflexivity.
      * injection Hs as <- ->. cbn [app] in Hya.
        assert (Hnx : z <> x) by (intros ->; apply Hxa; left; reflexivity).
        assert (Hny : z <> y) by (intros ->; apply Hya; left; reflexivity).
        apply before_cons. apply before_filter. split; [|split].
        -- apply (IH x y Ht). exists a, b, c. split; [reflexivity|]. split.
           ++ intros Hin. apply Hxa. right. exact Hin.
           ++ intros Hin. apply Hya. right. exact Hin.
        -- rewrite (eq_on_neq _ z x H (or_introl eq_refl) Hnx). reflexivity.
        -- rewrite (eq_on_neq _ z y H (or_introl eq_refl) Hny). reflexivity.
Qed.

(* the three facts together *)
Theorem dedup_first_spec : forall l,
  (forall x y, In x l -> (eqb x y = true <-> x = y)) ->
  NoDup (dedup_first eqb l) /\
  (forall x, In x (dedup_first eqb l) <-> In x l) /\
  (forall x y, before x y (dedup_first eqb l) <-> first_before x y l).
Proof.
  intros l H. split; [apply dedup_first_NoDup; exact H|]. split.
  - intros x. apply dedup_first_In. exact H.
  - intros x y. apply dedup_first_order. exact H.
Qed.

End DedupFirst.

(* before, through a map that is injective on the list *)
Lemma before_map_inj : forall (A B : Type) (f : A -> B) (l : list A) x y,
  (forall a b, In a l -> In b l -> f a = f b -> a = b) -> In x l -> In y l ->
  (before (f x) (f y) (map f l) <-> before x y l).
Proof.
  intros A B f l x y Hinj Hx Hy. split.
  - intros (a & b & c & H).
    apply map_eq_app in H. destruct H as (a' & r' & -> & _ & Hr).
    destruct r' as [|x' r']; [discriminate|]. cbn [map] in Hr. injection Hr as Hfx Hr.
    apply map_eq_app in Hr. destruct Hr as (b' & s' & -> & _ & Hs).
    destruct s' as [|y' c']; [discriminate|]. cbn [map] in Hs. injection Hs as Hfy _.
    assert (x' = x).
    { apply Hinj; [apply in_or_app; right; left; reflexivity|exact Hx|exact Hfx]. }
    assert (y' = y).
    { apply Hinj; [|exact Hy|exact Hfy].
      apply in_or_app; right; right; apply in_or_app; right; left; reflexivity. }
    subst x' y'. exists a', b', c'. reflexivity.
  - intros (a & b & c & ->). exists (map f a), (map f b), (map f c).
    rewrite map_app. cbn [map]. rewrite map_app. reflexivity.
Qed.

(* small list facts used for the round trip *)
Lemma map_nth_seq : forall (A : Type) (l : list A) (d : A),
  map (fun i => nth i l d) (seq 0 (length l)) = l.
Proof.
  intros A l d. induction l as [|a l IH]; [reflexivity|].
  cbn [length seq map nth]. f_equal. rewrite <- seq_shift, map_map. exact IH.
Qed.

Lemma filter_all : forall (A : Type) (p : A -> bool) (l : list A),
  (forall a, In a l -> p a = true) -> filter p l = l.
Proof.
  intros A p l. induction l as [|a l IH]; intros H; [reflexivity|].
  cbn [filter]. rewrite (H a (or_introl eq_refl)). f_equal. apply IH.
  intros b Hb. apply H. right. exact Hb.
Qed.

Lemma map_repeat' : forall (A B : Type) (f : A -> B) (a : A) (n : nat),
  map f (repeat a n) = repeat (f a) n.
Proof. intros A B f a n. induction n as [|n IH]; [reflexivity|]. cbn [repeat map]. rewrite IH. reflexivity. Qed.

Lemma qsum_filter_if : forall (A : Type) (f : A -> Q) (t : A -> bool) (l : list A),
  qsum (map f (filter t l)) == qsum (map (fun a => if t a then f a else 0) l).
Proof.
  intros A f t l. induction l as [|a l IH]; [reflexivity|].
  cbn [filter map]. destruct (t a); cbn [map]; rewrite ?qsum_cons, IH; ring.
Qed.

(* ====================================================================== *)
(* 2. load_csv: exact value and order                                      *)
(* ====================================================================== *)

Section WithCand.
Variable cand : Type.
Variable ceqb : cand -> cand -> bool.
Hypothesis ceqb_spec : forall a b, reflect (a = b) (ceqb a b).
Variable blank : cand.

Notation cell := (cell cand).
Notation ranking := (ranking cand).
Notation ballot := (ballot cand).
Notation profile := (profile cand).
Notation row_eqb := (row_eqb cand ceqb).
Notation nth_cell := (nth_cell cand).
Notation group_rows := (group_rows cand ceqb).
Notation load_csv := (load_csv cand ceqb blank).
Notation to_csv_rows := (to_csv_rows cand).
Notation cell_at := (cell_at cand).
Notation pattern := (pattern cand).
Notation cell_name := (cell_name cand blank).
Notation pattern_ranking := (pattern_ranking cand blank).
Notation rows_with := (rows_with cand ceqb).
Notation num_at := (num_at cand).
Notation rank_cell := (rank_cell cand blank).
Notation wf_table := (wf_table cand blank).
Notation csv_ballot := (csv_ballot cand ceqb blank).
Notation cast_cands := (cast_cands cand ceqb).
Notation str_cell := (str_cell cand).
Notation str_key := (str_key cand).
Notation ginv := (ginv cand ceqb).
Notation patterns_in_order := (patterns_in_order cand ceqb).
Notation wtof := (wtof cand ceqb).
Notation profile_eq := (profile_eq cand ceqb).

Lemma eq_on_str_rows : forall l : list (list cell),
  Forall (Forall str_cell) l -> eq_on _ row_eqb l.
Proof.
  intros l H x y Hx. rewrite Forall_forall in H.
  apply (row_eqb_eq_l cand ceqb ceqb_spec). apply H. exact Hx.
Qed.

Lemma str_keys_rows : forall done : list (list cell * list cell),
  Forall str_key done -> Forall (Forall str_cell) (map fst done).
Proof.
  intros done H. apply Forall_forall. intros k Hk. apply in_map_iff in Hk.
  destruct Hk as (x & <- & Hx). rewrite Forall_forall in H. apply (H x Hx).
Qed.

(* the groups are created in the order of the first occurrence of their key *)
Definition oinv (acc : list (list cell * list (list cell))) (done : list (list cell * list cell)) : Prop :=
  ginv acc done /\ map fst acc = dedup_first row_eqb (map fst done).

Lemma oinv_step : forall acc done x,
  str_key x -> Forall str_key done -> oinv acc done ->
  oinv (group_rows acc (fst x) (snd x)) (done ++ [x]).
Proof.
  intros acc done [key row] Hx Hdone [Hg Ho]. split.
  - apply (ginv_step cand ceqb ceqb_spec); assumption.
  - cbn [fst snd]. destruct Hg as (Hnd & Hkeys & _).
    assert (Hstr : forall k, In k (map fst acc) -> Forall str_cell k).
    { intros k Hk. apply Hkeys in Hk. pose proof (str_keys_rows done Hdone) as Hs.
      rewrite Forall_forall in Hs. apply Hs. exact Hk. }
    assert (Heq : eq_on _ row_eqb (map fst done)) by (apply eq_on_str_rows, str_keys_rows; exact Hdone).
    destruct (dedup_first_snoc _ row_eqb (map fst done) key Heq) as [S1 S2].
    rewrite map_app. cbn [map fst].
    destruct (group_rows_cases cand ceqb ceqb_spec acc key row Hstr)
      as [(l1 & rs & l2 & Hacc & Hgr)|[Hnot Hgr]]; rewrite Hgr.
    + assert (Hin : In key (map fst acc)).
      { rewrite Hacc, map_app. apply in_or_app. right. left. reflexivity. }
      rewrite S1; [|apply Hkeys; exact Hin].
      rewrite <- Ho, Hacc, !map_app. reflexivity.
    + rewrite S2; [|intros Hin; apply Hnot; apply Hkeys; exact Hin].
      rewrite map_app, Ho. reflexivity.
Qed.

Lemma oinv_fold : forall keyed, Forall str_key keyed ->
  oinv (fold_left (fun acc kr => group_rows acc (fst kr) (snd kr)) keyed []) keyed.
Proof.
  intros keyed H.
  apply (fold_left_inv _ _ (fun acc kr => group_rows acc (fst kr) (snd kr)) oinv str_key
           oinv_step keyed [] [] H (Forall_nil _)).
  split; [|reflexivity]. split; [constructor|]. split; [reflexivity|]. intros k rs [].
Qed.

Section WF.
Variables (ncols : nat) (rows : list (list cell)) (rc : list nat) (wc ic : option nat).
Hypothesis WF : wf_table ncols rows rc wc ic.
Let ranks := sel_ranks ncols rc wc ic.

Lemma patterns_str : Forall (Forall str_cell) (map (pattern ranks) rows).
Proof.
  apply Forall_forall. intros k Hk. apply in_map_iff in Hk. destruct Hk as (r & <- & Hr).
  apply (pattern_str_cells cand blank ncols rows rc wc ic WF). exact Hr.
Qed.

Lemma patterns_eq_on : eq_on _ row_eqb (map (pattern ranks) rows).
Proof. apply eq_on_str_rows. exact patterns_str. Qed.

Theorem csv_rest_exact :
  csv_rest cand ceqb blank ncols rows rc wc ic
  = inl (mkProfile (map (csv_ballot ranks wc ic rows) (patterns_in_order ranks rows))
                   (cast_cands (map (csv_ballot ranks wc ic rows) (patterns_in_order ranks rows)))).
Proof.
  assert (Hwchk : match wc with
                  | Some w => if Nat.ltb w ncols then ok tt else err EIndex
                  | None => ok tt
                  end = inl tt).
  { destruct wc as [w|] eqn:E; [|reflexivity].
    destruct (wf_weights _ _ _ _ _ _ _ WF w eq_refl) as [Hw _].
    apply Nat.ltb_lt in Hw. rewrite Hw. reflexivity. }
  assert (Hranks : match rc with
                   | [] => ok (filter (fun i => negb (match ic with Some j => Nat.eqb i j | None => false end)
                                              && negb (match wc with Some j => Nat.eqb i j | None => false end))
                                      (seq 0 ncols))
                   | l => if forallb (fun i => Nat.ltb i ncols) l then ok l else err EIndex
                   end = inl ranks).
  { unfold ranks, LoaderSpec.sel_ranks. destruct rc as [|c rc'] eqn:E; [reflexivity|].
    assert (Hf : forallb (fun i => Nat.ltb i ncols) (c :: rc') = true).
    { apply forallb_forall. intros i Hi. apply Nat.ltb_lt. apply (wf_rc _ _ _ _ _ _ _ WF). exact Hi. }
    rewrite Hf. reflexivity. }
  assert (Hkeyed : rmap (fun r => let! k := rmap (nth_cell r) ranks in ok (k, r)) rows
                   = inl (map (fun r => (pattern ranks r, r)) rows)).
  { apply rmap_total. intros r Hr. rewrite rmap_pattern; [reflexivity|].
    intros i Hi. rewrite (wf_width _ _ _ _ _ _ _ WF r Hr).
    apply (ranks_lt cand blank ncols rows rc wc ic WF). exact Hi. }
  unfold csv_rest. rewrite Hwchk. cbn [rbind]. rewrite Hranks. cbn [rbind]. rewrite Hkeyed. cbn [rbind].
  set (keyed := map (fun r => (pattern ranks r, r)) rows).
  set (G := fold_left (fun acc kr => group_rows acc (fst kr) (snd kr)) keyed []).
  assert (Hstr : Forall str_key keyed).
  { apply Forall_forall. intros x Hx. unfold keyed in Hx. apply in_map_iff in Hx.
    destruct Hx as (r & <- & Hr). unfold C18_loaders.str_key. cbn [fst].
    apply (pattern_str_cells cand blank ncols rows rc wc ic WF). exact Hr. }
  destruct (oinv_fold keyed Hstr) as ((Hnd & Hkeys & Hrs) & Hord). fold G in Hnd, Hkeys, Hrs, Hord.
  assert (Hmk : map fst keyed = map (pattern ranks) rows).
  { unfold keyed. rewrite map_map. reflexivity. }
  assert (HG : map fst G = patterns_in_order ranks rows).
  { rewrite Hord, Hmk. reflexivity. }
  assert (Hkeys' : forall k, In k (map fst G) -> exists r, In r rows /\ pattern ranks r = k).
  { intros k Hk. apply Hkeys in Hk. rewrite Hmk in Hk. apply in_map_iff in Hk.
    destruct Hk as (r & H1 & H2). exists r. split; assumption. }
  rewrite (rmap_total _ _ _ (fun g => csv_ballot ranks wc ic rows (fst g))).
  - cbn [rbind]. rewrite mk_profile_nil. rewrite <- HG, map_map. reflexivity.
  - intros [k rs] Hg. cbn [fst].
    assert (Hk : In k (map fst G)) by (apply in_map_iff; exists (k, rs); split; auto).
    apply Hkeys' in Hk. destruct Hk as (r & Hr & <-).
    rewrite (Hrs _ _ Hg). unfold keyed, ranks.
    rewrite (keyed_filter cand ceqb ncols rc wc ic rows).
    apply (group_ballot_ok cand ceqb ceqb_spec blank ncols rows rc wc ic WF). exact Hr.
Qed.

(* the complete value of load_csv on a well-formed table *)
Theorem load_csv_exact :
  load_csv ncols rows rc wc ic
  = inl (mkProfile (map (csv_ballot ranks wc ic rows) (patterns_in_order ranks rows))
                   (cast_cands (map (csv_ballot ranks wc ic rows) (patterns_in_order ranks rows)))).
Proof.
  rewrite load_csv_unfold; [|apply (wf_nonempty _ _ _ _ _ _ _ WF)].
  rewrite (id_check_ok cand ceqb blank ncols rows rc wc ic WF). cbn [rbind]. exact csv_rest_exact.
Qed.

Theorem patterns_in_order_spec :
  NoDup (patterns_in_order ranks rows) /\
  (forall k, In k (patterns_in_order ranks rows) <-> exists r, In r rows /\ pattern ranks r = k) /\
  (forall k1 k2, before k1 k2 (patterns_in_order ranks rows)
                 <-> first_before k1 k2 (map (pattern ranks) rows)).
Proof.
  destruct (dedup_first_spec _ row_eqb (map (pattern ranks) rows) patterns_eq_on) as (H1 & H2 & H3).
  split; [exact H1|]. split; [|exact H3].
  intros k. unfold LoaderOrderSpec.patterns_in_order. rewrite H2, in_map_iff.
  split; intros (r & Ha & Hb); exists r; split; assumption.
Qed.

Section Loaded.
Variable p : profile.
Hypothesis Hload : load_csv ncols rows rc wc ic = inl p.

Lemma loaded_ballots :
  ballots p = map (csv_ballot ranks wc ic rows) (patterns_in_order ranks rows).
Proof. rewrite load_csv_exact in Hload. injection Hload as <-. reflexivity. Qed.

Theorem csv_order_rankings :
  map rk (ballots p) = map pattern_ranking (patterns_in_order ranks rows).
Proof. rewrite loaded_ballots, map_map. reflexivity. Qed.

Theorem csv_order_ballots : forall b1 b2 r1 r2,
  In b1 (ballots p) -> In b2 (ballots p) -> In r1 rows -> In r2 rows ->
  rk b1 = pattern_ranking (pattern ranks r1) -> rk b2 = pattern_ranking (pattern ranks r2) ->
  (before b1 b2 (ballots p)
   <-> first_before (pattern ranks r1) (pattern ranks r2) (map (pattern ranks) rows)).
Proof.
  intros b1 b2 r1 r2 Hb1 Hb2 Hr1 Hr2 E1 E2.
  rewrite (csv_ballot_of cand ceqb ceqb_spec blank ncols rows rc wc ic WF p Hload b1 r1 Hb1 Hr1 E1).
  rewrite (csv_ballot_of cand ceqb ceqb_spec blank ncols rows rc wc ic WF p Hload b2 r2 Hb2 Hr2 E2).
  destruct patterns_in_order_spec as (Hnd & Hin & Hord).
  rewrite loaded_ballots. rewrite <- Hord. apply before_map_inj.
  - intros k k' Hk Hk' Heq. apply Hin in Hk. apply Hin in Hk'.
    destruct Hk as (ra & Hra & <-). destruct Hk' as (rb & Hrb & <-).
    apply (pattern_ranking_inj cand blank).
    + apply (pattern_rank_cells cand blank ncols rows rc wc ic WF). exact Hra.
    + apply (pattern_rank_cells cand blank ncols rows rc wc ic WF). exact Hrb.
    + apply (f_equal rk) in Heq. exact Heq.
  - apply Hin. exists r1. split; [exact Hr1|reflexivity].
  - apply Hin. exists r2. split; [exact Hr2|reflexivity].
Qed.

End Loaded.
End WF.

(* ====================================================================== *)
(* 3. to_csv -> load_csv, CVR layout                                       *)
(* ====================================================================== *)

Notation pos_cell := (pos_cell cand).
Notation cvr_cells := (cvr_cells cand).
Notation cvr_ballot := (cvr_ballot cand blank).
Notation pad_rk := (pad_rk cand blank).
Notation pad_ballot := (pad_ballot cand blank).

Definition cvr_tail (n : nat) (b : ballot) : list cell :=
  map pos_cell (rk b) ++ repeat CBlank (n - length (rk b)).
Definition cvr_row (n : nat) (b : ballot) : list cell := CNum (wt b) :: cvr_tail n b.

Lemma cvr_rows_eq : forall n (p : profile),
  map (cvr_cells n) (to_csv_rows p) = map (cvr_row n) (ballots p).
Proof. intros n p. unfold Loaders.to_csv_rows. rewrite map_map. reflexivity. Qed.

Lemma default_ranks_w0 : forall n, sel_ranks (S n) [] (Some 0%nat) None = seq 1 n.
Proof.
  intros n. unfold LoaderSpec.sel_ranks, default_ranks. cbn [seq filter is_col Nat.eqb negb andb].
  apply filter_all. intros i Hi. apply in_seq in Hi. destruct i as [|i]; [lia|reflexivity].
Qed.

Lemma pattern_tail : forall (c : cell) (tl : list cell),
  pattern (seq 1 (length tl)) (c :: tl) = tl.
Proof.
  intros c tl. unfold LoaderSpec.pattern, LoaderSpec.cell_at.
  rewrite <- seq_shift, map_map. cbn [nth]. apply map_nth_seq.
Qed.

Section RoundTrip.
Variable n : nat.
Variable p : profile.
Hypothesis Hne : ballots p <> [].
Hypothesis Hdom : forall b, In b (ballots p) -> cvr_ballot n b.

Let rows := map (cvr_row n) (ballots p).
Let ranks := sel_ranks (S n) [] (Some 0%nat) None.

Lemma cvr_tail_length : forall b, In b (ballots p) -> length (cvr_tail n b) = n.
Proof.
  intros b Hb. destruct (Hdom b Hb) as (_ & Hlen & _). unfold cvr_tail.
  rewrite app_length, map_length, repeat_length. lia.
Qed.

Lemma cvr_pattern : forall b, In b (ballots p) -> pattern ranks (cvr_row n b) = cvr_tail n b.
Proof.
  intros b Hb. unfold ranks. rewrite default_ranks_w0. unfold cvr_row.
  rewrite <- (cvr_tail_length b Hb) at 1. apply pattern_tail.
Qed.

Lemma cvr_tail_rank_cells : forall b, In b (ballots p) -> Forall rank_cell (cvr_tail n b).
Proof.
  intros b Hb. destruct (Hdom b Hb) as (_ & _ & Hs). unfold cvr_tail. apply Forall_app. split.
  - apply Forall_forall. intros c Hc. apply in_map_iff in Hc. destruct Hc as (s & <- & Hin).
    rewrite Forall_forall in Hs. destruct (Hs s Hin) as (x & -> & Hx). exact Hx.
  - apply Forall_forall. intros c Hc. apply repeat_spec in Hc. subst c. exact I.
Qed.

Lemma cvr_tail_ranking : forall b, In b (ballots p) ->
  pattern_ranking (cvr_tail n b) = pad_rk n (rk b).
Proof.
  intros b Hb. destruct (Hdom b Hb) as (_ & _ & Hs).
  unfold LoaderSpec.pattern_ranking, cvr_tail, LoaderOrderSpec.pad_rk.
  rewrite map_app, map_map, map_repeat'. cbn [LoaderSpec.cell_name]. f_equal.
  rewrite <- (map_id (rk b)) at 2. apply map_ext_in. intros s Hin.
  rewrite Forall_forall in Hs. destruct (Hs s Hin) as (x & -> & _). reflexivity.
Qed.

Lemma cvr_wf : wf_table (S n) rows [] (Some 0%nat) None.
Proof.
  constructor.
  - unfold rows. destruct (ballots p); [contradiction Hne; reflexivity|discriminate].
  - intros r Hr. unfold rows in Hr. apply in_map_iff in Hr. destruct Hr as (b & <- & Hb).
    unfold cvr_row. cbn [length]. rewrite (cvr_tail_length b Hb). reflexivity.
  - intros i [].
  - intros r i Hr Hi. unfold rows in Hr. apply in_map_iff in Hr. destruct Hr as (b & <- & Hb).
    pose proof (cvr_tail_rank_cells b Hb) as Hrc. rewrite <- (cvr_pattern b Hb) in Hrc.
    rewrite Forall_forall in Hrc. apply Hrc. unfold LoaderSpec.pattern.
    apply in_map_iff. exists i. split; [reflexivity|exact Hi].
  - intros i H. discriminate.
  - intros w H. injection H as <-. split; [lia|].
    intros r Hr. unfold rows in Hr. apply in_map_iff in Hr. destruct Hr as (b & <- & _).
    exists (wt b). reflexivity.
Qed.

Theorem roundtrip_cvr :
  exists p', load_csv (S n) (map (cvr_cells n) (to_csv_rows p)) [] (Some 0%nat) None = inl p' /\
    forall k, wtof k (map (pad_ballot n) (ballots p)) == wtof k (ballots p').
Proof.
  rewrite cvr_rows_eq. fold rows.
  pose proof (load_csv_exact (S n) rows [] (Some 0%nat) None cvr_wf) as Hl. fold ranks in Hl.
  eexists. split; [exact Hl|]. cbn [ballots]. intros k.
  destruct (patterns_in_order_spec (S n) rows [] (Some 0%nat) None cvr_wf) as (Hnd & Hin & _).
  fold ranks in Hnd, Hin.
  set (ks := patterns_in_order ranks rows) in *.
  set (t := fun k' : list cell =>
              ranking_eqb cand ceqb (rk k) (pattern_ranking k') && scores_eqb cand ceqb (sc k) []).
  set (h := fun r : list cell => if t (pattern ranks r) then num_at 0 r else 0).
  unfold Content.wtof. rewrite !qsum_filter_if, !map_map.
  (* right-hand side: regroup by pattern *)
  transitivity (qsum (map h rows)).
  - unfold rows. rewrite map_map. apply qsum_map_ext_eq. intros b Hb.
    unfold h. rewrite (cvr_pattern b Hb). unfold t. rewrite (cvr_tail_ranking b Hb).
    destruct (Hdom b Hb) as (Hsc & _ & _).
    unfold Content.same_content, LoaderOrderSpec.pad_ballot. cbn [rk sc wt]. rewrite Hsc.
    unfold cvr_row, LoaderSpec.num_at, LoaderSpec.cell_at. cbn [nth]. reflexivity.
  - rewrite <- (partition_sum cand ceqb ceqb_spec blank (S n) rows [] (Some 0%nat) None cvr_wf h ks rows Hnd).
    + fold ranks. apply qsum_map_ext_eq. intros k' _.
      unfold Content.same_content, LoaderSpec.csv_ballot. cbn [rk sc wt]. fold (t k').
      destruct (t k') eqn:Et.
      * apply qsum_map_ext_eq. intros r Hr.
        apply (rows_with_In cand ceqb ceqb_spec blank (S n) rows [] (Some 0%nat) None cvr_wf) in Hr.
        fold ranks in Hr. destruct Hr as [_ Hr]. unfold h. rewrite Hr, Et. reflexivity.
      * rewrite (qsum_map_ext_eq _ h (fun _ => 0)).
        -- rewrite qsum_map_const. ring.
        -- intros r Hr.
           apply (rows_with_In cand ceqb ceqb_spec blank (S n) rows [] (Some 0%nat) None cvr_wf) in Hr.
           fold ranks in Hr. destruct Hr as [_ Hr]. unfold h. rewrite Hr, Et. reflexivity.
    + intros r Hr. split; [exact Hr|]. fold ranks. apply Hin. exists r. split; [exact Hr|reflexivity].
Qed.

End RoundTrip.

Lemma pad_ballot_full : forall n (b : ballot), length (rk b) = n -> pad_ballot n b = b.
Proof.
  intros n [r w s i v] H. cbn [rk] in H. unfold LoaderOrderSpec.pad_ballot, LoaderOrderSpec.pad_rk.
  cbn [rk wt sc bid vs]. rewrite H, Nat.sub_diag. cbn [repeat]. rewrite app_nil_r. reflexivity.
Qed.

Theorem roundtrip_cvr_eq : forall n (p : profile),
  ballots p <> [] -> (forall b, In b (ballots p) -> cvr_ballot n b) ->
  exists p', load_csv (S n) (map (cvr_cells n) (to_csv_rows p)) [] (Some 0%nat) None = inl p' /\
    (forall k, wtof k (map (pad_ballot n) (ballots p)) == wtof k (ballots p')) /\
    profile_eq (mkProfile (map (pad_ballot n) (ballots p)) (cands p)) p' = true /\
    ((forall b, In b (ballots p) -> length (rk b) = n) -> profile_eq p p' = true).
Proof.
  intros n p Hne Hdom. destruct (roundtrip_cvr n p Hne Hdom) as (p' & Hl & Hw).
  exists p'. split; [exact Hl|]. split; [exact Hw|]. split.
  - apply (profile_eq_iff cand ceqb ceqb_spec). cbn [ballots]. exact Hw.
  - intros Hfull. apply (profile_eq_iff cand ceqb ceqb_spec). intros k. rewrite <- (Hw k).
    assert (E : map (pad_ballot n) (ballots p) = ballots p).
    { rewrite <- (map_id (ballots p)) at 2. apply map_ext_in. intros b Hb.
      apply pad_ballot_full. apply Hfull. exact Hb. }
    rewrite E. reflexivity.
Qed.

(* a profile without ballots writes a header-only file, which load_csv rejects *)
Theorem roundtrip_empty : forall n (p : profile) rc wc ic, ballots p = [] ->
  load_csv (S n) (map (cvr_cells n) (to_csv_rows p)) rc wc ic = inr EEmptyData.
Proof. intros n p rc wc ic H. unfold Loaders.to_csv_rows. rewrite H. reflexivity. Qed.

End WithCand.

(* ====================================================================== *)
(* 4. refutations (cand := positive, blank := 9)                           *)
(* ====================================================================== *)

Section Refutations.
Local Open Scope positive_scope.

(* the file to_csv writes, read back literally: whatever the string renderings are, the profile
   does not come back *)
Theorem roundtrip_literal_refuted :
  forall (enc_rk : ranking positive -> positive) (enc_sc : list (positive * Q) -> positive),
  exists p : profile positive,
    p = mkProfile [mkBallot [[1];[2];[3]] 2 [] None None] [1;2;3] /\
    forall rc, rc = [1%nat] \/ rc = [] ->
    exists p', Loaders.load_csv positive Pos.eqb 9 3%nat
                 (map (literal_cells positive enc_rk enc_sc) (Loaders.to_csv_rows positive p))
                 rc (Some 0%nat) None = inl p' /\
               Forall (fun b => (length (rk b) < 3)%nat) (ballots p') /\
               Core.profile_eq positive Pos.eqb p p' = false.
Proof.
  intros enc_rk enc_sc. eexists. split; [reflexivity|]. intros rc [-> | ->].
  - eexists. split; [vm_compute; reflexivity|]. split; [repeat constructor|].
    match goal with |- context [enc_rk ?x] => generalize (enc_rk x) end.
    intros e. destruct e; vm_compute; reflexivity.
  - eexists. split; [vm_compute; reflexivity|]. split; [repeat constructor|].
    match goal with |- context [enc_rk ?x] => generalize (enc_rk x) end.
    match goal with |- context [enc_sc ?x] => generalize (enc_sc x) end.
    intros e2 e1. destruct e1 as [e1|e1|]; destruct e2 as [e2|e2|];
      try (vm_compute; reflexivity); destruct e2; vm_compute; reflexivity.
Qed.

(* CVR layout: a ballot shorter than the table comes back with explicit blank positions, which
   is a different ballot content; the padding in [roundtrip_cvr] cannot be dropped *)
Theorem roundtrip_short_refuted :
  exists (n : nat) (p p' : profile positive),
    ballots p <> [] /\ (forall b, In b (ballots p) -> cvr_ballot positive 9 n b) /\
    Loaders.load_csv positive Pos.eqb 9 (S n)
      (map (cvr_cells positive n) (Loaders.to_csv_rows positive p)) [] (Some 0%nat) None = inl p' /\
    map rk (ballots p') = [[[1];[9]]; [[1];[2]]] /\
    Core.profile_eq positive Pos.eqb p p' = false.
Proof.
  exists 2%nat, (mkProfile [mkBallot [[1]] 1 [] None None; mkBallot [[1];[2]] 1 [] None None] [1;2]).
  eexists. split; [discriminate|]. split; [|split; [vm_compute; reflexivity|split; vm_compute; reflexivity]].
  intros b [<-|[<-|[]]]; (split; [reflexivity|]; split; [cbn; lia|]);
    repeat constructor; eexists; (split; [reflexivity|discriminate]).
Qed.

End Refutations.
