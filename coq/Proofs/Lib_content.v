(* Proofs/Lib_content.v — reusable facts about the model's set/ranking/score comparisons:
   [memb], [subsetb], [cset_eqb], [ranking_eqb], [pair_in], [scores_eqb], [key_match] (= spec
   [same_content]), [dedup], [has_dup], [Qlt_bool], [qsum].
   All of them need only that [ceqb] decides equality; no NoDup / well-formedness is needed for
   the comparisons to be equivalence relations (they are mutual inclusions). *)
From Coq Require Import List ZArith QArith Bool Permutation Lia Setoid PeanoNat.
From VK Require Import Base Core.
From VK.Spec Require Import Content.
Import ListNotations.

Section LibContent.
Variable cand : Type.
Variable ceqb : cand -> cand -> bool.
Hypothesis ceqb_spec : forall a b, reflect (a = b) (ceqb a b).

Local Notation memb := (Core.memb cand ceqb).
Local Notation subsetb := (Core.subsetb cand ceqb).
Local Notation cset_eqb := (Core.cset_eqb cand ceqb).
Local Notation ranking_eqb := (Core.ranking_eqb cand ceqb).
Local Notation dedup := (Core.dedup cand ceqb).
Local Notation has_dup := (Core.has_dup cand ceqb).
Local Notation pair_in := (Core.pair_in cand ceqb).
Local Notation scores_eqb := (Core.scores_eqb cand ceqb).
Local Notation key_match := (Core.key_match cand ceqb).
Local Notation same := (same_content cand ceqb).

(* ---------- ceqb ---------- *)
Lemma ceqb_eq a b : ceqb a b = true <-> a = b.
Proof.
  destruct (ceqb_spec a b) as [E|E]; split; intro H.
  - exact E.
  - reflexivity.
  - discriminate H.
  - contradiction.
Qed.

Lemma ceqb_refl c : ceqb c c = true.
Proof. apply ceqb_eq. reflexivity. Qed.

(* ---------- memb / subsetb / cset_eqb ---------- *)
Lemma memb_In c s : memb c s = true <-> In c s.
Proof.
  unfold Core.memb. rewrite existsb_exists. split.
  - intros [x [Hx Hc]]. apply ceqb_eq in Hc. subst x. exact Hx.
  - intros H. exists c. split; [exact H | apply ceqb_refl].
Qed.

Lemma memb_false c s : memb c s = false <-> ~ In c s.
Proof.
  rewrite <- memb_In. destruct (memb c s); split; intro H.
  - discriminate H.
  - exfalso. apply H. reflexivity.
  - intro K. discriminate K.
  - reflexivity.
Qed.

Lemma subsetb_incl a b : subsetb a b = true <-> incl a b.
Proof.
  unfold Core.subsetb, incl. rewrite forallb_forall. split; intros H c Hc.
  - apply (proj1 (memb_In c b)). apply H. exact Hc.
  - apply (proj2 (memb_In c b)). apply H. exact Hc.
Qed.

Lemma cset_eqb_iff a b : cset_eqb a b = true <-> incl a b /\ incl b a.
Proof. unfold Core.cset_eqb. rewrite andb_true_iff, !subsetb_incl. reflexivity. Qed.

Lemma cset_eqb_In a b : cset_eqb a b = true -> forall c, In c a <-> In c b.
Proof. intros H c. apply cset_eqb_iff in H as [A B]. split; [apply A | apply B]. Qed.

Lemma cset_eqb_refl a : cset_eqb a a = true.
Proof. apply cset_eqb_iff. split; apply incl_refl. Qed.

Lemma cset_eqb_sym a b : cset_eqb a b = cset_eqb b a.
Proof. unfold Core.cset_eqb. apply andb_comm. Qed.

Lemma cset_eqb_trans a b c : cset_eqb a b = true -> cset_eqb b c = true -> cset_eqb a c = true.
Proof.
  rewrite !cset_eqb_iff. intros [A B] [C D]. split; eapply incl_tran; eassumption.
Qed.

(* ---------- ranking_eqb ---------- *)
Lemma ranking_eqb_nil_cons s r : ranking_eqb [] (s :: r) = false.
Proof. reflexivity. Qed.

Lemma ranking_eqb_cons s1 r1 s2 r2 :
  ranking_eqb (s1 :: r1) (s2 :: r2) = cset_eqb s1 s2 && ranking_eqb r1 r2.
Proof. reflexivity. Qed.

Lemma ranking_eqb_refl r : ranking_eqb r r = true.
Proof.
  induction r as [|s r IH]; [reflexivity|].
  rewrite ranking_eqb_cons, cset_eqb_refl, IH. reflexivity.
Qed.

Lemma ranking_eqb_sym r1 : forall r2, ranking_eqb r1 r2 = ranking_eqb r2 r1.
Proof.
  induction r1 as [|s1 r1 IH]; intros [|s2 r2]; try reflexivity.
  rewrite !ranking_eqb_cons, cset_eqb_sym, IH. reflexivity.
Qed.

Lemma ranking_eqb_trans r1 : forall r2 r3,
  ranking_eqb r1 r2 = true -> ranking_eqb r2 r3 = true -> ranking_eqb r1 r3 = true.
Proof.
  induction r1 as [|s1 r1 IH]; intros [|s2 r2] [|s3 r3] H12 H23;
    try reflexivity; try discriminate H12; try discriminate H23.
  rewrite ranking_eqb_cons in *.
  apply andb_true_iff in H12 as [A B]. apply andb_true_iff in H23 as [C D].
  apply andb_true_iff. split.
  - eapply cset_eqb_trans; eassumption.
  - eapply IH; eassumption.
Qed.

Lemma ranking_eqb_Forall2 r1 : forall r2,
  ranking_eqb r1 r2 = true <-> Forall2 (fun a b => incl a b /\ incl b a) r1 r2.
Proof.
  induction r1 as [|s1 r1 IH]; intros [|s2 r2].
  - split; [constructor | reflexivity].
  - split; intro H; [discriminate H | inversion H].
  - split; intro H; [discriminate H | inversion H].
  - rewrite ranking_eqb_cons, andb_true_iff, cset_eqb_iff, IH. split.
    + intros [A B]. constructor; assumption.
    + intros H. inversion H; subst. split; assumption.
Qed.

Lemma ranking_eqb_length r1 : forall r2, ranking_eqb r1 r2 = true -> length r1 = length r2.
Proof.
  induction r1 as [|s1 r1 IH]; intros [|s2 r2] H; try reflexivity; try discriminate H.
  rewrite ranking_eqb_cons in H. apply andb_true_iff in H as [_ H].
  cbn [length]. f_equal. apply IH. exact H.
Qed.

Lemma ranking_eqb_nil_l r : ranking_eqb [] r = true -> r = [].
Proof. destruct r; [reflexivity | intro H; discriminate H]. Qed.

(* ---------- pair_in / scores_eqb ---------- *)
Definition peq (p p' : cand * Q) : Prop := fst p = fst p' /\ snd p == snd p'.

Lemma peq_refl p : peq p p.
Proof. split; reflexivity. Qed.
Lemma peq_sym p q : peq p q -> peq q p.
Proof. intros [A B]. split; symmetry; assumption. Qed.
Lemma peq_trans p q r : peq p q -> peq q r -> peq p r.
Proof. intros [A B] [C D]. split; etransitivity; eassumption. Qed.

Lemma pair_in_iff p d : pair_in p d = true <-> exists p', In p' d /\ peq p p'.
Proof.
  unfold Core.pair_in. rewrite existsb_exists. split; intros [x [Hx H]]; exists x; split; try exact Hx.
  - apply andb_true_iff in H as [A B]. split.
    + apply ceqb_eq. exact A.
    + apply Qeq_bool_iff. exact B.
  - destruct H as [A B]. apply andb_true_iff. split.
    + apply ceqb_eq. exact A.
    + apply Qeq_bool_iff. exact B.
Qed.

(* inclusion of score maps up to Qeq on values *)
Definition sincl (d1 d2 : list (cand * Q)) : Prop :=
  forall p, In p d1 -> exists p', In p' d2 /\ peq p p'.

Lemma sincl_refl d : sincl d d.
Proof. intros p Hp. exists p. split; [exact Hp | apply peq_refl]. Qed.

Lemma sincl_trans d1 d2 d3 : sincl d1 d2 -> sincl d2 d3 -> sincl d1 d3.
Proof.
  intros A B p Hp. destruct (A p Hp) as [q [Hq E]]. destruct (B q Hq) as [r [Hr F]].
  exists r. split; [exact Hr | eapply peq_trans; eassumption].
Qed.

Lemma scores_eqb_iff d1 d2 : scores_eqb d1 d2 = true <-> sincl d1 d2 /\ sincl d2 d1.
Proof.
  unfold Core.scores_eqb, sincl. rewrite andb_true_iff, !forallb_forall.
  split; intros [A B]; split; intros p Hp.
  - apply (proj1 (pair_in_iff p d2)). apply A. exact Hp.
  - apply (proj1 (pair_in_iff p d1)). apply B. exact Hp.
  - apply (proj2 (pair_in_iff p d2)). apply A. exact Hp.
  - apply (proj2 (pair_in_iff p d1)). apply B. exact Hp.
Qed.

Lemma scores_eqb_refl d : scores_eqb d d = true.
Proof. apply scores_eqb_iff. split; apply sincl_refl. Qed.

Lemma scores_eqb_sym d1 d2 : scores_eqb d1 d2 = scores_eqb d2 d1.
Proof. unfold Core.scores_eqb. apply andb_comm. Qed.

Lemma scores_eqb_trans d1 d2 d3 :
  scores_eqb d1 d2 = true -> scores_eqb d2 d3 = true -> scores_eqb d1 d3 = true.
Proof.
  rewrite !scores_eqb_iff. intros [A B] [C D]. split; eapply sincl_trans; eassumption.
Qed.

Lemma scores_eqb_nil_l d : scores_eqb [] d = true -> d = [].
Proof. destruct d as [|p d]; [reflexivity | intro H; discriminate H]. Qed.

Lemma scores_eqb_nil_r d : scores_eqb d [] = true -> d = [].
Proof. rewrite scores_eqb_sym. apply scores_eqb_nil_l. Qed.

(* ---------- key_match: an equivalence relation on ALL ballots ---------- *)
Lemma key_match_is_same a b : key_match a b = same a b.
Proof. reflexivity. Qed.

Lemma key_match_refl a : key_match a a = true.
Proof. unfold Core.key_match. rewrite ranking_eqb_refl, scores_eqb_refl. reflexivity. Qed.

Lemma key_match_sym a b : key_match a b = key_match b a.
Proof. unfold Core.key_match. rewrite ranking_eqb_sym, scores_eqb_sym. reflexivity. Qed.

Lemma key_match_trans a b c :
  key_match a b = true -> key_match b c = true -> key_match a c = true.
Proof.
  unfold Core.key_match. rewrite !andb_true_iff. intros [A B] [C D]. split.
  - eapply ranking_eqb_trans; eassumption.
  - eapply scores_eqb_trans; eassumption.
Qed.

Lemma key_match_congr_r a b k : key_match a b = true -> key_match k a = key_match k b.
Proof.
  intros H. apply eq_true_iff_eq. split; intro K.
  - eapply key_match_trans; eassumption.
  - eapply key_match_trans; [exact K|]. rewrite key_match_sym. exact H.
Qed.

Lemma key_match_congr_l a b k : key_match a b = true -> key_match a k = key_match b k.
Proof.
  intros H. rewrite (key_match_sym a k), (key_match_sym b k). apply key_match_congr_r. exact H.
Qed.

(* the same facts under the spec name *)
Lemma same_refl a : same a a = true.
Proof. exact (key_match_refl a). Qed.
Lemma same_sym a b : same a b = same b a.
Proof. exact (key_match_sym a b). Qed.
Lemma same_trans a b c : same a b = true -> same b c = true -> same a c = true.
Proof. exact (key_match_trans a b c). Qed.
Lemma same_congr_r a b k : same a b = true -> same k a = same k b.
Proof. exact (key_match_congr_r a b k). Qed.
Lemma same_congr_l a b k : same a b = true -> same a k = same b k.
Proof. exact (key_match_congr_l a b k). Qed.

Lemma same_ext_l (a a' k : ballot cand) : rk a = rk a' -> sc a = sc a' -> same a k = same a' k.
Proof. unfold same_content. intros -> ->. reflexivity. Qed.
Lemma same_ext_r (a a' k : ballot cand) : rk a = rk a' -> sc a = sc a' -> same k a = same k a'.
Proof. unfold same_content. intros -> ->. reflexivity. Qed.

Lemma same_iff a b :
  same a b = true <-> ranking_eqb (rk a) (rk b) = true /\ scores_eqb (sc a) (sc b) = true.
Proof. unfold same_content. apply andb_true_iff. Qed.

(* ---------- dedup / has_dup ---------- *)
Lemma In_dedup c l : In c (dedup l) <-> In c l.
Proof.
  induction l as [|a l IH]; [reflexivity|].
  cbn [Core.dedup]. destruct (memb a l) eqn:E.
  - rewrite IH. split; [intro H; right; exact H|].
    intros [H|H]; [subst a; apply memb_In; exact E | exact H].
  - cbn [In]. rewrite IH. reflexivity.
Qed.

Lemma NoDup_dedup l : NoDup (dedup l).
Proof.
  induction l as [|a l IH]; [constructor|].
  cbn [Core.dedup]. destruct (memb a l) eqn:E; [exact IH|].
  constructor; [|exact IH]. rewrite In_dedup. apply memb_false. exact E.
Qed.

Lemma dedup_length_le l : (length (dedup l) <= length l)%nat.
Proof.
  induction l as [|a l IH]; [apply Nat.le_refl|].
  cbn [Core.dedup]. destruct (memb a l); cbn [length]; lia.
Qed.

Lemma dedup_length_eq l : length (dedup l) = length l <-> NoDup l.
Proof.
  induction l as [|a l IH].
  - split; [constructor | reflexivity].
  - cbn [Core.dedup]. destruct (memb a l) eqn:E.
    + split; intro H.
      * pose proof (dedup_length_le l) as L. cbn [length] in H. lia.
      * inversion H as [|x y Hn Hd]; subst. exfalso. apply Hn. apply memb_In. exact E.
    + cbn [length]. split; intro H.
      * injection H as H. constructor; [apply memb_false; exact E | apply IH; exact H].
      * inversion H as [|x y Hn Hd]; subst. f_equal. apply IH. exact Hd.
Qed.

Lemma has_dup_true_iff l : has_dup l = true <-> ~ NoDup l.
Proof.
  unfold Core.has_dup. rewrite negb_true_iff, Nat.eqb_neq, dedup_length_eq. reflexivity.
Qed.

Lemma has_dup_false_iff l : has_dup l = false <-> NoDup l.
Proof.
  unfold Core.has_dup. rewrite negb_false_iff, Nat.eqb_eq, dedup_length_eq. reflexivity.
Qed.

Lemma dedup_NoDup_id l : NoDup l -> dedup l = l.
Proof.
  induction 1 as [|a l Hn Hd IH]; [reflexivity|].
  cbn [Core.dedup]. rewrite (proj2 (memb_false a l) Hn), IH. reflexivity.
Qed.

End LibContent.

(* ---------- rationals ---------- *)
Lemma Qlt_bool_iff a b : Qlt_bool a b = true <-> a < b.
Proof.
  unfold Qlt_bool. rewrite negb_true_iff. split; intro H.
  - apply Qnot_le_lt. intro L. apply Qle_bool_iff in L. rewrite L in H. discriminate H.
  - destruct (Qle_bool b a) eqn:E; [|reflexivity].
    apply Qle_bool_iff in E. exfalso. exact (Qlt_not_le _ _ H E).
Qed.

Lemma qsum_nil : qsum [] = 0.
Proof. reflexivity. Qed.

Lemma qsum_cons x l : qsum (x :: l) = x + qsum l.
Proof. reflexivity. Qed.

Lemma qsum_app l1 l2 : qsum (l1 ++ l2) == qsum l1 + qsum l2.
Proof.
  induction l1 as [|x l1 IH]; cbn [app].
  - rewrite qsum_nil. ring.
  - rewrite !qsum_cons, IH. ring.
Qed.

Lemma qsum_perm l l' : Permutation l l' -> qsum l == qsum l'.
Proof.
  induction 1 as [|x l l' _ IH|x y l|l l' l'' _ IH1 _ IH2].
  - reflexivity.
  - rewrite !qsum_cons, IH. reflexivity.
  - rewrite !qsum_cons. ring.
  - rewrite IH1. exact IH2.
Qed.

Lemma qsum_pos_nonneg l : (forall x, In x l -> 0 <= x) -> 0 <= qsum l.
Proof.
  induction l as [|x l IH]; intro H.
  - apply Qle_refl.
  - rewrite qsum_cons. rewrite <- (Qplus_0_l 0). apply Qplus_le_compat.
    + apply H. left. reflexivity.
    + apply IH. intros y Hy. apply H. right. exact Hy.
Qed.
