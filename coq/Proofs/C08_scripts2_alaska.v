(* Proofs/C08_scripts2_alaska.v — property C08, Alaska with EVERY tiebreak setting and EVERY draw
   script (non-random transfer): the Plurality stage, the STV count of the survivors and the STV
   replay made by get_profile, which draws again and may leave the recorded run. *)
From Coq Require Import List ZArith QArith Bool Permutation Lia Lqa Setoid Morphisms.
From VK Require Import Base Core STV Pairwise Rules.
From VK.Spec Require Import Content ScoreSpec EditSpec Anon AnonRules AnonRules2.
From VK.Proofs Require Import Lib_sets Lib_content Lib_condense C11_condense C04_scoring C12_edit Elect
  STV_threshold C08_anon C08_stv C08_pairwise C08_rules C08_dictator C08_scripts C08_scripts2.
Import ListNotations.
Open Scope Q_scope.

Lemma Forall2_removelast : forall {A B} (R : A -> B -> Prop) l l',
  Forall2 R l l' -> Forall2 R (removelast l) (removelast l').
Proof.
  intros A B R l l' H. induction H as [|a b l l' Hab H IH]; [constructor|].
  cbn [removelast]. destruct H as [|a2 b2 l l' Hab2 H]; [constructor|].
  constructor; [exact Hab|exact IH].
Qed.

Section Alaska2.
Variable cand : Type.
Variable ceqb : cand -> cand -> bool.
Hypothesis ceqb_spec : forall a b, reflect (a = b) (ceqb a b).

Notation profile := (profile cand).
Notation mstate := (mstate cand).
Notation estate := (estate cand).
Notation flat := (flat cand).
Notation groups_equiv := (groups_equiv cand).
Notation state_equiv := (state_equiv cand).
Notation profile_equiv := (profile_equiv cand ceqb).
Notation stv_domain := (stv_domain cand).
Notation dom := (one_shot_domain cand).
Notation stv_step_equiv := (stv_step_equiv cand ceqb).
Notation mstate_equiv := (mstate_equiv cand ceqb).
Notation mres_equiv_log := (mres_equiv_log cand ceqb).
Notation mbind_log := (mbind_log cand ceqb).
Notation mret_log := (mret_log cand ceqb).
Notation mlift_log := (mlift_log cand ceqb).
Notation st_rel := (st_rel cand).
Notation step_rel := (step_rel cand ceqb).
Notation no_zero_transfer := C08_scripts2.no_zero_transfer.

Lemma eq_bind_log : forall {A B} (R : B -> B -> Prop) (x y : res A) (f g : A -> M cand B) (s s' : mstate),
  x = y -> (forall a, y = inl a -> mres_equiv_log R (f a s) (g a s')) ->
  mres_equiv_log R (mbind (mlift x) f s) (mbind (mlift y) g s').
Proof.
  intros A B R x y f g s s' <- H. unfold mbind, mlift. destruct x as [a|e]; [|exact eq_refl].
  cbn [ok]. apply H. reflexivity.
Qed.

(* ---- the replay ---- *)
Lemma stv_replay_log : forall cfg t p0 p0',
  s_transfer cfg <> TRandom -> stv_domain p0 -> stv_domain p0' -> profile_equiv p0 p0' ->
  (s_simul cfg = true -> no_zero_transfer cfg t) ->
  forall sts sts', Forall2 st_rel sts sts' ->
  forall done done' p p' (s s' : mstate), Forall2 state_equiv done done' -> mstate_equiv s s' ->
  stv_domain p -> stv_domain p' -> profile_equiv p p' ->
  mres_equiv_log (fun _ _ => True)
    (stv_replay cand ceqb cfg t p0 done p sts s) (stv_replay cand ceqb cfg t p0' done' p' sts' s').
Proof.
  intros cfg t p0 p0' Htr Hd0 Hd0' He0 Hsafe sts sts' H.
  induction H as [|prev prev' sts sts' Hprev Hsts IH]; intros done done' p p' s s' Hdone Hs Hd Hd' He.
  - cbn [Rules.stv_replay]. apply mret_log; [exact I|exact Hs].
  - cbn [Rules.stv_replay]. destruct Hprev as [Hpe [Hi Hi']].
    assert (Hdn : Forall2 state_equiv (done ++ [prev]) (done' ++ [prev'])).
    { apply Forall2_app; [exact Hdone|constructor; [exact Hpe|constructor]]. }
    rewrite <- (count_elected_equiv cand _ _ Hdn).
    apply (mbind_log stv_step_equiv).
    + apply (stv_step_log cand ceqb ceqb_spec); try assumption. intros Hsim. left. apply Hsafe. exact Hsim.
    + intros [np st] [np' st'] s1 s1' [H1 [_ [H3 [H4 _]]]] Hs1. cbn [fst snd] in H1, H3, H4.
      apply IH; assumption.
Qed.

(* ---- the first stage hands a profile of the STV domain to the STV stage ---- *)
Lemma plurality_stage_domain : forall m tb p prev (s s' : mstate) p1 a1,
  stv_domain p -> plurality_stage cand ceqb m tb p prev s = inl ((p1, a1), s') -> stv_domain p1.
Proof.
  intros m tb p prev s s' p1 a1 Hd H. unfold Rules.plurality_stage, mbind in H.
  destruct (run_plurality cand ceqb m tb p s) as [[sts sx]|e]; [|discriminate].
  destruct sts as [|x0 [|x1 [|x2 l]]]; try discriminate.
  unfold mlift in H.
  destruct (remove_cand_prof cand ceqb (flat (remaining x1)) true false p) as [np|e] eqn:E; [|discriminate].
  cbn [ok] in H. destruct (first_place_votes cand ceqb np) as [d|e]; [|discriminate].
  cbn in H. inversion H; subst.
  apply (stv_domain_remove cand ceqb ceqb_spec _ p p1 Hd E).
Qed.

Lemma nonneg_total : forall bs : list (ballot cand), nonneg_wts cand bs -> 0 <= total_wt cand bs.
Proof.
  intros bs H. unfold Core.total_wt. apply Lib_sets.qsum_nonneg. unfold Anon.nonneg_wts in H.
  rewrite Forall_forall in H |- *. intros x Hx. apply in_map_iff in Hx. destruct Hx as [b [<- Hb]]. apply H, Hb.
Qed.

Lemma alaska_safe : forall cfg m2 p1 t, alaska_script_ok cfg -> stv_domain p1 ->
  stv_init cand (with_m cfg m2) p1 = inl t ->
  s_simul (with_m cfg m2) = true -> no_zero_transfer (with_m cfg m2) t.
Proof.
  intros cfg m2 p1 t [Hs|[Hq|Hf]] Hd Ht Hsim.
  - cbn [with_m s_simul] in Hsim. congruence.
  - left. pose proof (threshold_value cand (with_m cfg m2) p1 t Ht
                        (nonneg_total _ (domain_nonneg cand p1 Hd))) as [_ Hv].
    cbv zeta in Hv. cbn [with_m s_quota] in Hv. rewrite Hq in Hv. destruct Hv as [_ [_ H1]]. lra.
  - right. exact Hf.
Qed.

Theorem alaska_log : forall m1 m2 cfg p p' (s s' : mstate),
  s_transfer cfg <> TRandom -> alaska_script_ok cfg -> mstate_equiv s s' ->
  stv_domain p -> stv_domain p' -> profile_equiv p p' ->
  mres_equiv_log (Forall2 state_equiv) (run_rule cand ceqb (RAlaska m1 m2 cfg) p s)
                                       (run_rule cand ceqb (RAlaska m1 m2 cfg) p' s').
Proof.
  intros m1 m2 cfg p p' s s' Htr Hok Hs Hd Hd' He. cbn [Rules.run_rule].
  pose proof (stv_domain_dom cand p Hd) as Hdo.
  pose proof (stv_domain_dom cand p' Hd') as Hdo'.
  unfold Rules.run_alaska. apply eq_bind_log; [reflexivity|]. intros [] _.
  apply eq_bind_log.
  { rewrite (ranking_validate_wf cand p (proj1 (proj2 Hdo))), (ranking_validate_wf cand p' (proj1 (proj2 Hdo'))).
    reflexivity. }
  intros [] _. apply (mbind_log state_equiv).
  { apply mlift_log; [|exact Hs]. apply (round0_anonymous cand ceqb ceqb_spec); assumption. }
  intros s0 s0' s2 s2' H0 Hs2. apply (mbind_log_eq cand ceqb (step_rel SKFpv)).
  { apply (plurality_stage_log cand ceqb ceqb_spec); try assumption. apply H0. }
  intros [p1 a1] [p1' a1'] s3 s3' E1 E1' [Hp1 [Ha1 _]] Hs3. cbn [fst snd] in Hp1, Ha1.
  pose proof (plurality_stage_domain _ _ _ _ _ _ _ _ Hd E1) as Hd1.
  pose proof (plurality_stage_domain _ _ _ _ _ _ _ _ Hd' E1') as Hd1'.
  cbv zeta.
  assert (Htr2 : s_transfer (with_m cfg m2) <> TRandom) by exact Htr.
  pose proof (stv_init_anonymous cand ceqb ceqb_spec (with_m cfg m2) p1 p1' Hd1 Hd1' Hp1
                (fun H => False_ind _ (Htr2 H))) as Einit.
  apply eq_bind_log; [exact Einit|]. intros t Et.
  assert (Et1 : stv_init cand (with_m cfg m2) p1 = inl t) by (rewrite Einit; exact Et).
  apply (mbind_log (Forall2 st_rel)).
  { apply (run_stv_log cand ceqb ceqb_spec); assumption. }
  intros sts sts' s4 s4' Hsts Hs4.
  apply (mbind_log (fun _ _ => True)).
  { apply stv_replay_log; try assumption.
    - apply (alaska_safe cfg m2 p1 t Hok Hd1 Et1).
    - apply Forall2_removelast. exact Hsts.
    - constructor. }
  intros _ _ s5 s5' _ Hs5. apply mret_log; [|exact Hs5].
  constructor; [exact H0|constructor; [exact Ha1|]].
  apply (Forall2_map2 state_equiv state_equiv); [apply (bump_equiv cand)|].
  apply Forall2_tl. apply (st_rel_equiv cand). exact Hsts.
Qed.

Theorem alaska_script_anonymous : forall m1 m2 cfg p p' (s : mstate),
  s_transfer cfg <> TRandom -> alaska_script_ok cfg ->
  stv_domain p -> stv_domain p' -> profile_equiv p p' ->
  mres_equiv_log (Forall2 state_equiv) (run_rule cand ceqb (RAlaska m1 m2 cfg) p s)
                                       (run_rule cand ceqb (RAlaska m1 m2 cfg) p' s).
Proof.
  intros m1 m2 cfg p p' s Htr Hok Hd Hd' He. apply alaska_log; try assumption. apply (mstate_equiv_refl cand ceqb).
Qed.

End Alaska2.
