(* Proofs/C13_composite.v — C13: TopTwo and Alaska equal the compositions they are documented to
   be (Plurality, remove_cand, Plurality / STV), with consecutive round numbers. *)
From VK Require Import Base Core STV Pairwise Rules PV Election.
From VK.Spec Require Import ScoreSpec RatingSpec TopMSpec.
From VK.Proofs Require Import Lib_sets C04_scoring Elect C11_profile C12_edit C20_validation C05_rating.
From Coq Require Import Permutation Lia Lqa.

(* ------------------------------------------------------------------ *)
(** * the state-and-error monad *)

Section Monad.
Context {cand : Type}.
Notation M := (M cand).
Notation mstate := (mstate cand).

Lemma mbind_inv : forall {A B} (x : M A) (k : A -> M B) (s : mstate) r,
  mbind x k s = inl r -> exists a s1, x s = inl (a, s1) /\ k a s1 = inl r.
Proof.
  intros A B x k s r H. unfold mbind in H. destruct (x s) as [[a s1]|e]; [|discriminate].
  exists a, s1. split; [reflexivity|exact H].
Qed.

Lemma mbind_ok : forall {A B} (x : M A) (k : A -> M B) (s s1 : mstate) a,
  x s = inl (a, s1) -> mbind x k s = k a s1.
Proof. intros A B x k s s1 a H. unfold mbind. rewrite H. reflexivity. Qed.

Lemma mbind_err : forall {A B} (x : M A) (k : A -> M B) (s : mstate) e,
  x s = inr e -> mbind x k s = inr e.
Proof. intros A B x k s e H. unfold mbind. rewrite H. reflexivity. Qed.

Lemma mlift_inv : forall {A} (r : res A) (s s1 : mstate) a,
  mlift r s = inl (a, s1) -> r = inl a /\ s1 = s.
Proof.
  intros A r s s1 a H. unfold mlift in H. destruct r as [a'|e]; [|discriminate].
  unfold ok in H. inversion H. split; reflexivity.
Qed.

Lemma mret_inv : forall {A} (a b : A) (s s1 : mstate), mret a s = inl (b, s1) -> a = b /\ s1 = s.
Proof. intros A a b s s1 H. unfold mret, ok in H. inversion H. split; reflexivity. Qed.

End Monad.

Section Composite.
Variable cand : Type.
Variable ceqb : cand -> cand -> bool.
Hypothesis ceqb_spec : forall a b, reflect (a = b) (ceqb a b).

Notation cset := (cset cand).
Notation ranking := (ranking cand).
Notation ballot := (ballot cand).
Notation profile := (profile cand).
Notation scores := (scores cand).
Notation estate := (estate cand).
Notation mstate := (mstate cand).
Notation flat := (flat cand).
Notation singletons := (singletons cand).
Notation ranking_validate := (ranking_validate cand).
Notation stv_init := (stv_init cand).
Notation stv_step := (stv_step cand ceqb).
Notation stv_loop := (stv_loop cand ceqb).
Notation stv_replay := (stv_replay cand ceqb).
Notation run_stv := (run_stv cand ceqb).
Notation run_plurality := (run_plurality cand ceqb).
Notation run_toptwo := (run_toptwo cand ceqb).
Notation run_alaska := (run_alaska cand ceqb).
Notation run_one_shot := (run_one_shot cand ceqb).
Notation plurality_stage := (plurality_stage cand ceqb).
Notation one_shot_step := (one_shot_step cand ceqb).
Notation round0 := (round0 cand ceqb).
Notation initial_state := (initial_state cand ceqb).
Notation first_place_votes := (first_place_votes cand ceqb).
Notation elect_top_m := (elect_top_m cand ceqb).
Notation score_to_ranking := (score_to_ranking cand).
Notation remove_cand_prof := (remove_cand_prof cand ceqb).
Notation real_groups := (real_groups cand).
Notation count_elected := (count_elected cand).
Notation no_group := (no_group cand).
Notation bump := (bump cand).
Notation top_m_facts := (top_m_facts cand).

(* ------------------------------------------------------------------ *)
(** * small list facts *)

Lemma one_group : forall r : ranking, Forall (fun g => g <> []) r -> length (flat r) = 1%nat ->
  exists c, r = [[c]].
Proof.
  intros r Hne Hlen. destruct r as [|g r]; [discriminate|].
  inversion Hne as [|x l Hg Hr]; subst.
  destruct g as [|c g]; [contradiction Hg; reflexivity|].
  rewrite (flat_cons cand) in Hlen. cbn [app length] in Hlen. rewrite app_length in Hlen.
  destruct g as [|c' g]; [|cbn [length] in Hlen; lia].
  destruct r as [|g2 r]; [exists c; reflexivity|].
  inversion Hr as [|x l Hg2 _]; subst. destruct g2 as [|c2 g2]; [contradiction Hg2; reflexivity|].
  rewrite (flat_cons cand) in Hlen. cbn [app length] in Hlen. lia.
Qed.

Lemma two_distinct_length : forall (g : cset) a b, In a g -> In b g -> a <> b -> (2 <= length g)%nat.
Proof.
  intros g a b Ha Hb Hab. apply in_split in Ha. destruct Ha as [l1 [l2 ->]].
  rewrite app_length. cbn [length]. apply in_app_or in Hb. destruct Hb as [Hb|[Hb|Hb]].
  - destruct l1; [destruct Hb|cbn [length]; lia].
  - contradiction Hab.
  - destruct l2; [destruct Hb|cbn [length]; lia].
Qed.

Lemma real_groups_id : forall r : ranking, flat r <> [] -> real_groups r = r.
Proof.
  intros r H. unfold STV.real_groups. destruct r as [|g r]; [reflexivity|].
  destruct g as [|c g]; [|reflexivity]. destruct r as [|g' r]; [|reflexivity].
  contradiction H. reflexivity.
Qed.

(* ------------------------------------------------------------------ *)
(** * consecutive round numbers *)

Definition numbered (l : list estate) : Prop :=
  forall i st, nth_error l i = Some st -> rnd st = Z.of_nat i.

Lemma numbered_snoc : forall l st, numbered l -> rnd st = Z.of_nat (length l) -> numbered (l ++ [st]).
Proof.
  intros l st Hl Hst i x Hx. destruct (Nat.lt_ge_cases i (length l)) as [Hlt|Hge].
  - rewrite nth_error_app1 in Hx by exact Hlt. apply Hl. exact Hx.
  - rewrite nth_error_app2 in Hx by exact Hge.
    destruct (i - length l)%nat as [|j] eqn:Hj.
    + cbn [nth_error] in Hx. inversion Hx; subst x. rewrite Hst. f_equal. lia.
    + cbn [nth_error] in Hx. destruct j; discriminate.
Qed.

Lemma numbered_last : forall l st, numbered (l ++ [st]) -> rnd st = Z.of_nat (length l).
Proof.
  intros l st H. apply H. rewrite nth_error_app2 by lia. rewrite Nat.sub_diag. reflexivity.
Qed.

Lemma stv_step_rnd : forall cfg t p0 n (p : profile) prev s np st s',
  stv_step cfg t p0 n p prev s = inl ((np, st), s') -> rnd st = (rnd prev + 1)%Z.
Proof.
  intros cfg t p0 n p prev s np st s' H. unfold STV.stv_step in H. cbv zeta in H.
  apply mbind_inv in H. destruct H as [[[[el elim] tbs] np'] [s1 [_ H]]]. cbn beta iota in H.
  apply mbind_inv in H. destruct H as [d [s2 [_ H]]]. apply mret_inv in H. destruct H as [Heq _].
  inversion Heq. reflexivity.
Qed.

Lemma stv_loop_eq : forall fuel cfg t (p0 p : profile) (sts : list estate) s,
  stv_loop fuel cfg t p0 p sts s =
  if Z.eqb (count_elected sts) (s_m cfg) then inl (rev sts, s)
  else match fuel with
       | O => inr EFuel
       | S fuel' =>
           match sts with
           | [] => inr EOther
           | prev :: _ =>
               match stv_step cfg t p0 (count_elected sts) p prev s with
               | inl ((np, st), s') => stv_loop fuel' cfg t p0 np (st :: sts) s'
               | inr e => inr e
               end
           end
       end.
Proof.
  intros fuel cfg t p0 p sts s. destruct fuel as [|fuel']; cbn [STV.stv_loop].
  - destruct (Z.eqb (count_elected sts) (s_m cfg)); reflexivity.
  - destruct (Z.eqb (count_elected sts) (s_m cfg)); [reflexivity|].
    destruct sts as [|prev sts']; [reflexivity|].
    unfold mbind. destruct (stv_step cfg t p0 (count_elected (prev :: sts')) p prev s) as [[[np st] s']|e];
      reflexivity.
Qed.

Lemma stv_loop_numbered : forall fuel cfg t (p0 p : profile) (sts : list estate) s out s',
  numbered (rev sts) ->
  stv_loop fuel cfg t p0 p sts s = inl (out, s') ->
  numbered out /\ exists more, out = rev sts ++ more.
Proof.
  induction fuel as [|fuel IH]; intros cfg t p0 p sts s out s' Hnum H; rewrite stv_loop_eq in H.
  - destruct (Z.eqb (count_elected sts) (s_m cfg)); [|discriminate].
    inversion H; subst. split; [exact Hnum|]. exists []. rewrite app_nil_r. reflexivity.
  - destruct (Z.eqb (count_elected sts) (s_m cfg)).
    { inversion H; subst. split; [exact Hnum|]. exists []. rewrite app_nil_r. reflexivity. }
    destruct sts as [|prev rest]; [discriminate|].
    destruct (stv_step cfg t p0 (count_elected (prev :: rest)) p prev s) as [[[np st] s1]|e] eqn:Hstep;
      [|discriminate].
    apply IH in H.
    + destruct H as [Hn [more Hm]]. split; [exact Hn|]. exists (st :: more). rewrite Hm.
      cbn [rev]. rewrite <- !app_assoc. reflexivity.
    + change (rev (st :: prev :: rest)) with (rev (prev :: rest) ++ [st]).
      apply numbered_snoc; [exact Hnum|]. rewrite (stv_step_rnd _ _ _ _ _ _ _ _ _ _ Hstep).
      cbn [rev] in Hnum |- *. rewrite (numbered_last _ _ Hnum), app_length. cbn [length]. lia.
Qed.

(* rounds of an STV election are numbered 0, 1, 2, ...; round 0 is the initial state *)
Theorem run_stv_numbered : forall cfg (p : profile) s sts s',
  run_stv cfg p s = inl (sts, s') ->
  (forall i st, nth_error sts i = Some st -> rnd st = Z.of_nat i) /\
  exists t q0 more, stv_init cfg p = inl t /\ initial_state p = inl q0 /\ sts = q0 :: more.
Proof.
  intros cfg p s sts s' H. unfold STV.run_stv in H.
  apply mbind_inv in H. destruct H as [t [s1 [Ht H]]]. apply mlift_inv in Ht. destruct Ht as [Ht ->].
  apply mbind_inv in H. destruct H as [q0 [s2 [Hq H]]]. apply mlift_inv in Hq. destruct Hq as [Hq ->].
  apply stv_loop_numbered in H.
  - destruct H as [Hn [more Hm]]. split; [exact Hn|]. exists t, q0, more. repeat split; assumption.
  - cbn [rev app]. intros i st Hi. destruct i as [|i]; [|destruct i; discriminate].
    cbn [nth_error] in Hi. inversion Hi; subst st.
    unfold STV.initial_state in Hq. destruct (first_place_votes p) as [d|e]; [|discriminate].
    cbn [rbind] in Hq. unfold ok in Hq. inversion Hq. reflexivity.
Qed.

(* ------------------------------------------------------------------ *)
(** * the Plurality stage shared by TopTwo and Alaska *)

Lemma plurality_stage_iff : forall m tb (p : profile) prev s p1 s1 sa,
  plurality_stage m tb p prev s = inl ((p1, s1), sa) <->
  exists q0 q1 d,
    run_plurality m tb p s = inl ([q0; q1], sa) /\
    remove_cand_prof (flat (remaining q1)) true false p = inl p1 /\
    first_place_votes p1 = inl d /\
    s1 = mkState (rnd prev + 1) (real_groups (elected q1)) no_group (remaining q1) (tiebreaks q1) d.
Proof.
  intros m tb p prev s p1 s1 sa. unfold Rules.plurality_stage. split.
  - intros H. apply mbind_inv in H. destruct H as [sts [s2 [Hrun H]]].
    destruct sts as [|q0 [|q1 [|q2 rest]]]; try (unfold mfail, err in H; discriminate).
    cbv zeta in H.
    apply mbind_inv in H. destruct H as [np [s3 [Hnp H]]]. apply mlift_inv in Hnp. destruct Hnp as [Hnp ->].
    apply mbind_inv in H. destruct H as [d [s4 [Hd H]]]. apply mlift_inv in Hd. destruct Hd as [Hd ->].
    apply mret_inv in H. destruct H as [Heq ->]. inversion Heq; subst.
    exists q0, q1, d. repeat split; assumption.
  - intros [q0 [q1 [d [Hrun [Hnp [Hd ->]]]]]].
    rewrite (mbind_ok _ _ _ _ _ Hrun). cbv zeta. rewrite mbind_mlift, Hnp, mbind_mlift, Hd. reflexivity.
Qed.

Lemma fpv_ranking_validate : forall (p : profile) d,
  first_place_votes p = inl d -> ranking_validate p = inl tt.
Proof.
  intros p d H. unfold Core.first_place_votes in H.
  destruct (score_rankings_inv cand ceqb p _ d H) as [p' [_ [Ham _]]].
  unfold Core.add_missing in Ham.
  destruct (rmap (add_missing_ballot cand ceqb (cands p)) (ballots p)) as [bs|e] eqn:Hr;
    cbn [rbind] in Ham; [|discriminate].
  apply rmap_inv in Hr. apply (ranking_validate_iff cand p).
  clear Ham H. induction Hr as [|b b' l l' Hb _ IH]; intros x Hx; [destruct Hx|].
  destruct Hx as [<-|Hx]; [|apply IH; exact Hx].
  destruct (add_missing_ballot_inv cand ceqb _ _ _ Hb) as [Hne _]. exact Hne.
Qed.

(* what the stage computes, for a duplicate-free candidate list *)
Theorem plurality_stage_spec : forall m tb (p : profile) prev s p1 s1 sa,
  NoDup (cands p) ->
  plurality_stage m tb p prev s = inl ((p1, s1), sa) ->
  exists d el rem t q0 q1,
    run_plurality m tb p s = inl ([q0; q1], sa) /\
    elected q1 = el /\ remaining q1 = rem /\ escores q0 = d /\
    first_place_votes p = inl d /\ map fst d = cands p /\
    elect_top_m (score_to_ranking d true) m (Some p) tb s = inl ((el, rem, t), sa) /\
    (1 <= m <= Z.of_nat (length (cands p)))%Z /\
    top_m_facts d m el rem t /\
    remove_cand_prof (flat rem) true false p = inl p1 /\
    first_place_votes p1 = inl (escores s1) /\
    rnd s1 = (rnd prev + 1)%Z /\ remaining s1 = el /\ elected s1 = [[]] /\ eliminated s1 = rem /\
    tiebreaks s1 = (match t with Some x => [x] | None => [] end) /\
    Permutation (cands p1) (flat el) /\ NoDup (cands p1) /\ Z.of_nat (length (cands p1)) = m.
Proof.
  intros m tb p prev s p1 s1 sa Hnd H.
  apply plurality_stage_iff in H. destruct H as [q0 [q1 [d1 [Hrun [Hnp [Hd1 ->]]]]]].
  pose proof Hrun as Hrun0.
  rewrite (run_plurality_prologue cand ceqb) in Hrun.
  destruct (ranking_validate p) as [[]|e]; [|discriminate].
  destruct (one_shot_spec cand ceqb ceqb_spec _ _ _ _ _ _ _ Hnd Hrun)
    as [d [el [rem [t [np [d' [Hd [Hkeys [Hne [Hel [_ [_ [Hsts [Hrange Hfacts]]]]]]]]]]]]]].
  inversion Hsts; subst q0 q1. cbn [elected remaining tiebreaks escores state_of_scores] in *.
  cbn [Rules.score_fn] in Hd.
  destruct Hfacts as [F1 [F2 F3]].
  assert (Hflat : flat el <> []).
  { intros E. rewrite E in F1. cbn [length] in F1. lia. }
  assert (Hndall : NoDup (flat el ++ flat rem)).
  { eapply Permutation_NoDup; [apply Permutation_sym; exact F2|]. rewrite Hkeys. exact Hnd. }
  destruct (NoDup_app_inv _ _ Hndall) as [Hndel [_ Hdisj]].
  assert (Hmem : forall c, In c (set_diff cand ceqb (cands p) (flat rem)) <-> In c (flat el)).
  { intros c. rewrite (set_diff_In cand ceqb ceqb_spec). split.
    - intros [Hc Hn]. rewrite <- Hkeys in Hc.
      apply (Permutation_in _ (Permutation_sym F2)) in Hc. apply in_app_or in Hc.
      destruct Hc as [Hc|Hc]; [exact Hc|contradiction].
    - intros Hc. split.
      + rewrite <- Hkeys. apply (Permutation_in _ F2). apply in_or_app. left. exact Hc.
      + apply Hdisj. exact Hc. }
  assert (Hdiff : set_diff cand ceqb (cands p) (flat rem) <> []).
  { intros E. destruct (flat el) as [|c l] eqn:Efl; [contradiction Hflat; reflexivity|].
    assert (Hc : In c (set_diff cand ceqb (cands p) (flat rem))) by (apply Hmem; left; reflexivity).
    rewrite E in Hc. destruct Hc. }
  destruct (remove_prof_cands cand ceqb ceqb_spec (flat rem) true false p Hnd)
    as [np' [Hnp' [_ [Hc _]]]].
  rewrite Hnp in Hnp'. inversion Hnp'; subst np'. destruct (Hc Hdiff) as [Hcands [Hndp1 _]].
  assert (Hperm : Permutation (cands p1) (flat el)).
  { apply NoDup_Permutation; [exact Hndp1|exact Hndel|]. intros c. rewrite Hcands. apply Hmem. }
  exists d, el, rem, t. eexists. eexists. split; [exact Hrun0|].
  cbn [elected remaining tiebreaks escores rnd eliminated state_of_scores].
  repeat (split; [reflexivity|]). split; [exact Hd|]. split; [exact Hkeys|]. split; [exact Hel|].
  split; [exact Hrange|]. split; [exact (conj F1 (conj F2 F3))|]. split; [exact Hnp|].
  split; [exact Hd1|]. split; [reflexivity|]. split; [apply real_groups_id; exact Hflat|].
  repeat (split; [reflexivity|]). split; [exact Hperm|]. split; [exact Hndp1|].
  rewrite (Permutation_length Hperm). exact F1.
Qed.

(* ------------------------------------------------------------------ *)
(** * T2: Alaska *)

Theorem c13_alaska_proof : forall m1 m2 cfg (p : profile) s sts s',
  run_alaska m1 m2 cfg p s = inl (sts, s') <->
  exists s0 p1 s1 sa t ssts sb pf,
    alaska_args m1 m2 = inl tt /\ ranking_validate p = inl tt /\ round0 SKFpv p = inl s0 /\
    plurality_stage m1 (s_tiebreak cfg) p s0 s = inl ((p1, s1), sa) /\
    stv_init (with_m cfg m2) p1 = inl t /\
    run_stv (with_m cfg m2) p1 sa = inl (ssts, sb) /\
    stv_replay (with_m cfg m2) t p1 [] p1 (removelast ssts) sb = inl (pf, s') /\
    sts = s0 :: s1 :: map bump (tl ssts).
Proof.
  intros m1 m2 cfg p s sts s'. unfold Rules.run_alaska. cbv zeta. split.
  - intros H.
    apply mbind_inv in H. destruct H as [[] [x1 [H1 H]]]. apply mlift_inv in H1. destruct H1 as [H1 ->].
    apply mbind_inv in H. destruct H as [[] [x2 [H2 H]]]. apply mlift_inv in H2. destruct H2 as [H2 ->].
    apply mbind_inv in H. destruct H as [s0 [x3 [H3 H]]]. apply mlift_inv in H3. destruct H3 as [H3 ->].
    apply mbind_inv in H. destruct H as [[p1 s1] [sa [H4 H]]]. cbn beta iota in H.
    apply mbind_inv in H. destruct H as [t [x5 [H5 H]]]. apply mlift_inv in H5. destruct H5 as [H5 ->].
    apply mbind_inv in H. destruct H as [ssts [sb [H6 H]]].
    apply mbind_inv in H. destruct H as [pf [sc [H7 H]]].
    apply mret_inv in H. destruct H as [<- ->].
    exists s0, p1, s1, sa, t, ssts, sb, pf. repeat split; assumption.
  - intros [s0 [p1 [s1 [sa [t [ssts [sb [pf [H1 [H2 [H3 [H4 [H5 [H6 [H7 ->]]]]]]]]]]]]]]].
    rewrite mbind_mlift, H1, mbind_mlift, H2, mbind_mlift, H3.
    rewrite (mbind_ok _ _ _ _ _ H4). cbn beta iota.
    rewrite mbind_mlift, H5. rewrite (mbind_ok _ _ _ _ _ H6). rewrite (mbind_ok _ _ _ _ _ H7).
    reflexivity.
Qed.

(* the replay at the end can only consume further draws or turn success into an error: whenever
   the election returns, its states are those computed before the replay *)
Theorem c13_alaska_states_proof : forall m1 m2 cfg (p : profile) s sts s',
  NoDup (cands p) ->
  run_alaska m1 m2 cfg p s = inl (sts, s') ->
  exists s0 p1 s1 sa ssts sb d el rem t,
    (1 <= m2 <= m1)%Z /\
    (* round 0: first-place votes of p *)
    round0 SKFpv p = inl s0 /\ rnd s0 = 0%Z /\ escores s0 = d /\ first_place_votes p = inl d /\
    (* round 1: the Plurality(m1) stage *)
    plurality_stage m1 (s_tiebreak cfg) p s0 s = inl ((p1, s1), sa) /\
    elect_top_m (score_to_ranking d true) m1 (Some p) (s_tiebreak cfg) s = inl ((el, rem, t), sa) /\
    top_m_facts d m1 el rem t /\
    remove_cand_prof (flat rem) true false p = inl p1 /\
    rnd s1 = 1%Z /\ remaining s1 = el /\ elected s1 = [[]] /\ eliminated s1 = rem /\
    tiebreaks s1 = (match t with Some x => [x] | None => [] end) /\
    first_place_votes p1 = inl (escores s1) /\
    Permutation (cands p1) (flat el) /\ Z.of_nat (length (cands p1)) = m1 /\
    (* rounds 2..: STV(m2) on the reduced profile, from the monad state the stage left *)
    run_stv (with_m cfg m2) p1 sa = inl (ssts, sb) /\
    (exists q0, initial_state p1 = inl q0 /\ ssts = q0 :: tl ssts /\ escores q0 = escores s1) /\
    sts = s0 :: s1 :: map bump (tl ssts) /\
    (* consecutive numbering *)
    (forall i st, nth_error sts i = Some st -> rnd st = Z.of_nat i) /\
    length sts = S (length ssts).
Proof.
  intros m1 m2 cfg p s sts s' Hnd H. apply c13_alaska_proof in H.
  destruct H as [s0 [p1 [s1 [sa [t0 [ssts [sb [pf [H1 [H2 [H3 [H4 [H5 [H6 [H7 Hsts]]]]]]]]]]]]]]].
  destruct (plurality_stage_spec _ _ _ _ _ _ _ _ Hnd H4)
    as [d [el [rem [t [q0 [q1 [Hrun [_ [_ [_ [Hd [Hkeys [Hel [Hrange [Hfacts [Hnp [Hd1 [Hr1 [Hrem1
        [Hel1 [Helim1 [Htb1 [Hperm [Hndp1 Hlen]]]]]]]]]]]]]]]]]]]]]]]].
  destruct (run_stv_numbered _ _ _ _ _ H6) as [Hnum [t1 [qs [more [_ [Hqs Hssts]]]]]].
  assert (Hs0 : s0 = state_of_scores cand 0 no_group no_group [] d).
  { unfold Rules.round0 in H3. cbn [Rules.score_fn] in H3. rewrite Hd in H3. cbn [rbind] in H3.
    unfold ok in H3. inversion H3. reflexivity. }
  assert (Hrnd0 : rnd s0 = 0%Z) by (rewrite Hs0; reflexivity).
  exists s0, p1, s1, sa, ssts, sb, d, el, rem, t.
  split; [apply (alaska_args_iff m1 m2); exact H1|].
  split; [exact H3|]. split; [exact Hrnd0|]. split; [rewrite Hs0; reflexivity|].
  split; [exact Hd|]. split; [exact H4|]. split; [exact Hel|]. split; [exact Hfacts|].
  split; [exact Hnp|]. split; [rewrite Hr1, Hrnd0; reflexivity|].
  split; [exact Hrem1|]. split; [exact Hel1|]. split; [exact Helim1|]. split; [exact Htb1|].
  split; [exact Hd1|]. split; [exact Hperm|]. split; [exact Hlen|]. split; [exact H6|].
  split.
  { exists qs. split; [exact Hqs|]. split; [rewrite Hssts; reflexivity|].
    unfold STV.initial_state in Hqs. rewrite Hd1 in Hqs. cbn [rbind] in Hqs. unfold ok in Hqs.
    inversion Hqs. reflexivity. }
  split; [exact Hsts|]. split.
  - intros i st Hi. rewrite Hsts in Hi. destruct i as [|[|i]]; cbn [nth_error] in Hi.
    + inversion Hi; subst st. exact Hrnd0.
    + inversion Hi; subst st. rewrite Hr1, Hrnd0. reflexivity.
    + rewrite nth_error_map in Hi. rewrite Hssts in Hi. cbn [tl] in Hi.
      destruct (nth_error more i) as [st0|] eqn:Hst0; [|discriminate].
      cbn [option_map] in Hi. inversion Hi; subst st.
      assert (Hr : rnd st0 = Z.of_nat (S i)).
      { apply Hnum. rewrite Hssts. cbn [nth_error]. exact Hst0. }
      unfold Rules.bump. cbn [rnd]. rewrite Hr. lia.
  - rewrite Hsts, Hssts. cbn [tl length]. rewrite map_length. reflexivity.
Qed.

(* ------------------------------------------------------------------ *)
(** * T1: TopTwo *)

Definition renumber (r : Z) (q : estate) : estate :=
  mkState r (remaining q) (elected q) (eliminated q) (tiebreaks q) (escores q).

Theorem c13_toptwo_proof : forall tb (p : profile) s sts s',
  run_toptwo tb p s = inl (sts, s') <->
  exists s0 p1 s1 sa q0 q1 sb x,
    ranking_validate p = inl tt /\ round0 SKFpv p = inl s0 /\
    plurality_stage 2 tb p s0 s = inl ((p1, s1), sa) /\
    run_plurality 1 tb p1 sa = inl ([q0; q1], sb) /\
    one_shot_step SKFpv 1 tb p1 q0 sb = inl (x, s') /\
    sts = [s0; s1; mkState 2 (remaining q1) (elected q1) (eliminated q1) (tiebreaks q1) (escores q1)].
Proof.
  intros tb p s sts s'. unfold Rules.run_toptwo. split.
  - intros H.
    apply mbind_inv in H. destruct H as [[] [x1 [H1 H]]]. apply mlift_inv in H1. destruct H1 as [H1 ->].
    apply mbind_inv in H. destruct H as [s0 [x2 [H2 H]]]. apply mlift_inv in H2. destruct H2 as [H2 ->].
    apply mbind_inv in H. destruct H as [[p1 s1] [sa [H3 H]]]. cbn beta iota in H.
    apply mbind_inv in H. destruct H as [qs [sb [H4 H]]].
    destruct qs as [|q0 [|q1 [|q2 rest]]]; try (unfold mfail, err in H; discriminate).
    apply mbind_inv in H. destruct H as [x [sc [H5 H]]].
    apply mret_inv in H. destruct H as [<- ->].
    exists s0, p1, s1, sa, q0, q1, sb, x. repeat split; assumption.
  - intros [s0 [p1 [s1 [sa [q0 [q1 [sb [x [H1 [H2 [H3 [H4 [H5 ->]]]]]]]]]]]]].
    rewrite mbind_mlift, H1, mbind_mlift, H2. rewrite (mbind_ok _ _ _ _ _ H3). cbn beta iota.
    rewrite (mbind_ok _ _ _ _ _ H4). rewrite (mbind_ok _ _ _ _ _ H5). reflexivity.
Qed.

Theorem c13_toptwo_winner_proof : forall tb (p : profile) s sts s',
  NoDup (cands p) ->
  run_toptwo tb p s = inl (sts, s') ->
  exists s0 s1 s2 p1 d0 d,
    sts = [s0; s1; s2] /\ rnd s0 = 0%Z /\ rnd s1 = 1%Z /\ rnd s2 = 2%Z /\
    (* round 0: first-place ranking of p *)
    first_place_votes p = inl d0 /\ escores s0 = d0 /\ remaining s0 = score_to_ranking d0 true /\
    (* round 1: the two candidates elected by Plurality(2) remain, the others are eliminated *)
    Z.of_nat (length (flat (remaining s1))) = 2%Z /\
    Permutation (flat (remaining s1) ++ flat (eliminated s1)) (cands p) /\
    (forall c1 c2 q1 q2, In c1 (flat (remaining s1)) -> In c2 (flat (eliminated s1)) ->
       In (c1, q1) d0 -> In (c2, q2) d0 -> q2 <= q1) /\
    (* the reduced profile: everybody else removed from every ballot *)
    remove_cand_prof (flat (eliminated s1)) true false p = inl p1 /\
    Permutation (cands p1) (flat (remaining s1)) /\
    first_place_votes p1 = inl d /\ escores s1 = d /\ map fst d = cands p1 /\
    (* round 2: Plurality(1) on the reduced profile *)
    Z.of_nat (length (flat (elected s2))) = 1%Z /\
    Permutation (flat (elected s2) ++ flat (remaining s2)) (cands p1) /\
    (* without a recorded tiebreak in round 2 the winner strictly beats the loser head to head *)
    (tiebreaks s2 = [] ->
       exists w l qw ql, elected s2 = [[w]] /\ remaining s2 = [[l]] /\
         Permutation [w; l] (flat (remaining s1)) /\
         In (w, qw) d /\ In (l, ql) d /\ ql < qw).
Proof.
  intros tb p s sts s' Hnd H. apply c13_toptwo_proof in H.
  destruct H as [s0 [p1 [s1 [sa [q0 [q1 [sb [x [H1 [H2 [H3 [H4 [H5 Hsts]]]]]]]]]]]]].
  destruct (plurality_stage_spec _ _ _ _ _ _ _ _ Hnd H3)
    as [d0 [el [rem [t [r0 [r1 [Hrun [_ [_ [_ [Hd0 [Hkeys0 [Hel [Hrange [Hfacts [Hnp [Hd1 [Hr1 [Hrem1
        [Hel1 [Helim1 [Htb1 [Hperm [Hndp1 Hlen]]]]]]]]]]]]]]]]]]]]]]]].
  assert (Hs0 : s0 = state_of_scores cand 0 no_group no_group [] d0).
  { unfold Rules.round0 in H2. cbn [Rules.score_fn] in H2. rewrite Hd0 in H2. cbn [rbind] in H2.
    unfold ok in H2. inversion H2. reflexivity. }
  (* the second Plurality *)
  pose proof H4 as H4'. rewrite (run_plurality_prologue cand ceqb) in H4'.
  destruct (ranking_validate p1) as [[]|e]; [|discriminate].
  destruct (one_shot_spec cand ceqb ceqb_spec _ _ _ _ _ _ _ Hndp1 H4')
    as [d [el2 [rem2 [t2 [np2 [d2 [Hd [Hkeys [Hne [Hel2 [_ [_ [Hq [_ Hfacts2]]]]]]]]]]]]]].
  inversion Hq; subst q0 q1. cbn [Rules.score_fn] in Hd.
  assert (Hdd : escores s1 = d) by congruence.
  destruct Hfacts as [F1 [F2 [F3 _]]].
  destruct Hfacts2 as [G1 [G2 [_ [G4 [_ [_ [G7 _]]]]]]].
  exists s0, s1. eexists. exists p1, d0, d. split; [exact Hsts|].
  cbn [rnd remaining elected eliminated tiebreaks escores].
  split; [rewrite Hs0; reflexivity|]. split; [rewrite Hr1, Hs0; reflexivity|]. split; [reflexivity|].
  split; [exact Hd0|]. split; [rewrite Hs0; reflexivity|]. split; [rewrite Hs0; reflexivity|].
  rewrite Hrem1, Helim1.
  split; [exact F1|]. split; [rewrite <- Hkeys0; exact F2|]. split; [exact F3|].
  split; [exact Hnp|]. split; [exact Hperm|]. split; [exact Hd|]. split; [exact Hdd|].
  split; [exact Hkeys|]. split; [exact G1|]. split; [rewrite <- Hkeys; exact G2|].
  intros Htb. assert (Ht2 : t2 = None) by (destruct t2; [discriminate|reflexivity]).
  specialize (G7 Ht2).
  assert (Hgroups : Forall (fun g => g <> []) (el2 ++ rem2)).
  { rewrite G7. apply Forall_forall. intros g Hg.
    eapply score_to_ranking_nonempty_groups; eassumption. }
  apply Forall_app in Hgroups. destruct Hgroups as [Hg1 Hg2].
  assert (Hl1 : length (flat el2) = 1%nat) by lia.
  assert (Hl2 : length (flat rem2) = 1%nat).
  { pose proof (Permutation_length G2) as Hpl. rewrite app_length, map_length in Hpl.
    assert (Hd2 : length d = 2%nat).
    { rewrite <- (map_length fst d), Hkeys. lia. }
    lia. }
  destruct (one_group el2 Hg1 Hl1) as [w ->]. destruct (one_group rem2 Hg2 Hl2) as [l ->].
  assert (Hwl : Permutation [w; l] (cands p1)).
  { rewrite <- Hkeys. exact G2. }
  assert (Hw : In w (map fst d)) by (rewrite Hkeys; apply (Permutation_in _ Hwl); left; reflexivity).
  assert (Hl : In l (map fst d)).
  { rewrite Hkeys. apply (Permutation_in _ Hwl). right. left. reflexivity. }
  apply in_map_iff in Hw. destruct Hw as [[w' qw] [Ew Hw]]. cbn [fst] in Ew. subst w'.
  apply in_map_iff in Hl. destruct Hl as [[l' ql] [El Hl]]. cbn [fst] in El. subst l'.
  exists w, l, qw, ql. split; [reflexivity|]. split; [reflexivity|].
  split; [eapply Permutation_trans; eassumption|]. split; [exact Hw|]. split; [exact Hl|].
  destruct (G4 [] [w] [] [l] [] w l qw ql eq_refl (or_introl eq_refl) (or_introl eq_refl) Hw Hl)
    as [Hlt|[_ [g [t' [Ht' _]]]]]; [exact Hlt|]. rewrite Ht2 in Ht'. discriminate.
Qed.

(* an exact head-to-head tie without a tiebreak rule: ValueError *)
Theorem c13_toptwo_tie_proof : forall (p : profile) s s0 p1 s1 sa a b qa qb,
  NoDup (cands p) ->
  ranking_validate p = inl tt -> round0 SKFpv p = inl s0 ->
  plurality_stage 2 None p s0 s = inl ((p1, s1), sa) ->
  a <> b -> In (a, qa) (escores s1) -> In (b, qb) (escores s1) -> qa == qb ->
  run_plurality 1 None p1 sa = inr EValue /\ run_toptwo None p s = inr EValue.
Proof.
  intros p s s0 p1 s1 sa a b qa qb Hnd H1 H2 H3 Hab Ha Hb Heq.
  destruct (plurality_stage_spec _ _ _ _ _ _ _ _ Hnd H3)
    as [d0 [el [rem [t [r0 [r1 [_ [_ [_ [_ [_ [_ [_ [_ [_ [_ [Hd1 [_ [_ [_ [_ [_ [_ [Hndp1 Hlen]]]]]]]]]]]]]]]]]]]]]]]].
  set (d := escores s1) in *.
  assert (Hkeys : map fst d = cands p1).
  { unfold Core.first_place_votes in Hd1. eapply score_rankings_keys. exact Hd1. }
  assert (Hne : d <> []) by (intros E; rewrite E in Ha; destruct Ha).
  assert (Hndd : NoDup (map fst d)) by (rewrite Hkeys; exact Hndp1).
  assert (Hstr : straddlesZ cand (score_to_ranking d true) 1).
  { destruct (proj2 (score_to_ranking_same_group_iff cand d a b qa qb Hne Hndd Ha Hb) Heq)
      as [g [Hg [Hag Hbg]]].
    apply in_split in Hg. destruct Hg as [pre [post Hr]].
    pose proof (ranking_size_scores cand d) as Hsize.
    rewrite Hr, (flat_app cand), (flat_cons cand), !app_length in Hsize.
    assert (Hd2 : length d = 2%nat).
    { rewrite <- (map_length fst d), Hkeys. lia. }
    pose proof (two_distinct_length g a b Hag Hbg Hab) as Hg2.
    exists pre, g, post. split; [exact Hr|]. split; lia. }
  assert (Hplur : run_plurality 1 None p1 sa = inr EValue).
  { rewrite (run_plurality_prologue cand ceqb), (fpv_ranking_validate p1 d Hd1).
    rewrite (run_one_shot_unfold cand ceqb). cbn [Rules.score_fn]. fold d in Hd1. rewrite Hd1.
    rewrite (proj2 (elect_top_m_none_error_iff cand ceqb (score_to_ranking d true) 1 (Some p1) sa));
      [reflexivity|]. right. right. exact Hstr. }
  split; [exact Hplur|].
  unfold Rules.run_toptwo. rewrite mbind_mlift, H1, mbind_mlift, H2.
  rewrite (mbind_ok _ _ _ _ _ H3). cbn beta iota. apply mbind_err. exact Hplur.
Qed.

End Composite.
