(* Proofs/C12_pairwise.v — C12: head-to-head (pairwise) totals are unchanged by expanding ties.
   The expansion of a tied ballot lists every consistent linear order once with equal weight; the
   weight of the orders that put a strictly before b is wt * [pair_share r a b]
   (Spec/ExpandPairSpec.v): all of them when a's position precedes b's (or b is unlisted), none when
   it follows (or a is unlisted), exactly half when they share a position (halving lemma
   [perms_half] of Proofs/C06_pairwise.v). *)
From VK Require Import Base Core Pairwise PairwiseSpec ExpandPairSpec.
From VK.Proofs Require Import C12_expand Lib_rk Lib_sets C06_pairwise.
From Coq Require Import Permutation Lia Lqa Setoid Morphisms.

Section PairExpand.
Variable cand : Type.
Variable ceqb : cand -> cand -> bool.
Hypothesis ceqb_spec : forall a b, reflect (a = b) (ceqb a b).

Notation cset := (cset cand).
Notation ranking := (ranking cand).
Notation ballot := (ballot cand).
Notation memb := (memb cand ceqb).
Notation flat := (flat cand).
Notation singletons := (singletons cand).
Notation perms := (perms cand).
Notation expand_ranking := (expand_ranking cand).
Notation tie_divisor := (tie_divisor cand).
Notation expand_tied_ballot := (expand_tied_ballot cand).
Notation before := (before cand ceqb).
Notation prefers := (prefers cand ceqb).
Notation h2h := (h2h cand ceqb).
Notation pair_share := (pair_share cand ceqb).
Notation never_tied := (never_tied cand).

Local Notation memb_In := (Lib_sets.memb_In cand ceqb ceqb_spec).
Local Notation memb_false_iff := (Lib_sets.memb_false_iff cand ceqb ceqb_spec).

(* ------------------------------------------------------------------ *)
(** * small facts *)

Lemma Qnat_mult : forall a b, Qnat (a * b) == Qnat a * Qnat b.
Proof. intros a b. unfold Qnat. rewrite Nat2Z.inj_mul, inject_Z_mult. reflexivity. Qed.

Lemma memb_app : forall a (l1 l2 : cset), memb a (l1 ++ l2) = memb a l1 || memb a l2.
Proof. intros a l1 l2. unfold Core.memb. apply existsb_app. Qed.

Lemma memb_perm : forall a (l l' : cset), Permutation l l' -> memb a l = memb a l'.
Proof.
  intros a l l' H. destruct (memb a l') eqn:E.
  - apply memb_In. apply memb_In in E. eapply Permutation_in; [apply Permutation_sym; exact H|exact E].
  - apply memb_false_iff. apply memb_false_iff in E. intros Hin. apply E.
    eapply Permutation_in; [exact H|exact Hin].
Qed.

Lemma NoDup_flat_groups : forall r : ranking, NoDup (flat r) -> Forall (@NoDup cand) r.
Proof.
  induction r as [|g r IH]; intros H; [constructor|].
  rewrite (Lib_sets.flat_cons cand) in H. apply NoDup_app_inv in H. destruct H as [Hg [Hr _]].
  constructor; [exact Hg|apply IH; exact Hr].
Qed.

(* the head-to-head test on a linear order placed in front of a ranking *)
Lemma prefers_singletons_app : forall a c (o : list cand) (t : ranking),
  prefers a c (singletons o ++ t) =
  if memb a o || memb c o then before a c o else prefers a c t.
Proof.
  intros a c o t. induction o as [|x o IH]; [reflexivity|].
  cbn [Core.singletons map app Pairwise.prefers Core.memb existsb PairwiseSpec.before].
  rewrite !orb_false_r. destruct (ceqb a x); [reflexivity|]. cbn [orb].
  destruct (ceqb c x); [rewrite orb_true_r; reflexivity|]. cbn [orb]. exact IH.
Qed.

(* ------------------------------------------------------------------ *)
(** * counting the linear orders of the expansion that put a before c *)

Definition pw_sum (a c : cand) (w : Q) (L : list ranking) : Q :=
  qsum (map (fun l => if prefers a c l then w else 0) L).

Lemma pw_sum_in_group : forall a c w (o : list cand) (tails : list ranking),
  memb a o || memb c o = true ->
  pw_sum a c w (map (fun t => singletons o ++ t) tails) ==
  (if before a c o then Qnat (length tails) * w else 0).
Proof.
  intros a c w o tails H. unfold pw_sum. rewrite map_map.
  transitivity (qsum (map (fun _ : ranking => if before a c o then w else 0) tails)).
  - apply qsum_map_ext_in. intros t _. rewrite prefers_singletons_app, H. reflexivity.
  - rewrite Lib_sets.qsum_map_const. destruct (before a c o); ring.
Qed.

Lemma pw_sum_skip_group : forall a c w (o : list cand) (tails : list ranking),
  memb a o || memb c o = false ->
  pw_sum a c w (map (fun t => singletons o ++ t) tails) == pw_sum a c w tails.
Proof.
  intros a c w o tails H. unfold pw_sum. rewrite map_map.
  apply qsum_map_ext_in. intros t _. rewrite prefers_singletons_app, H. reflexivity.
Qed.

Theorem expand_pw_sum : forall (r : ranking) a c w, a <> c -> Forall (@NoDup cand) r ->
  pw_sum a c w (expand_ranking r) == Qnat (tie_divisor r) * w * pair_share r a c.
Proof.
  induction r as [|g r IH]; intros a c w Hac Hnd.
  - cbn [Core.expand_ranking Core.tie_divisor ExpandPairSpec.pair_share]. unfold pw_sum.
    cbn [map Pairwise.prefers]. rewrite qsum_cons, qsum_nil. ring.
  - inversion Hnd as [|g0 r0 Hg Hr]; subst g0 r0.
    cbn [Core.expand_ranking Core.tie_divisor ExpandPairSpec.pair_share]. cbv zeta.
    set (tails := expand_ranking r).
    assert (HT : length tails = tie_divisor r) by apply expand_ranking_length.
    unfold pw_sum at 1. rewrite (C06_pairwise.qsum_concat_map).
    change (qsum (map (fun o => pw_sum a c w (map (fun t => singletons o ++ t) tails)) (perms g)) ==
            Qnat (fact (length g) * tie_divisor r) * w *
            (if memb a g then if memb c g then 1 / 2 else 1
             else if memb c g then 0 else pair_share r a c)).
    assert (Hmo : forall x o, In o (perms g) -> memb x o = memb x g).
    { intros x o Ho. apply memb_perm. apply perms_spec. exact Ho. }
    rewrite Qnat_mult, <- (perms_length cand g), <- HT.
    destruct (memb a g) eqn:Ea.
    + (* a stands in this position *)
      transitivity (ind_sum cand ceqb a c (Qnat (length tails) * w) (perms g)).
      * unfold ind_sum. apply qsum_map_ext_in. intros o Ho.
        apply pw_sum_in_group. rewrite (Hmo a o Ho), Ea. reflexivity.
      * destruct (memb c g) eqn:Ec.
        -- rewrite (perms_half cand ceqb ceqb_spec a c _ g Hg);
             [field| apply memb_In; exact Ea | apply memb_In; exact Ec | exact Hac].
        -- unfold ind_sum.
           transitivity (qsum (map (fun _ : list cand => Qnat (length tails) * w) (perms g))).
           ++ apply qsum_map_ext_in. intros o Ho.
              rewrite (before_only_a cand ceqb ceqb_spec a c o); [reflexivity| |].
              ** apply memb_In. rewrite (Hmo a o Ho). exact Ea.
              ** apply memb_false_iff. rewrite (Hmo c o Ho). exact Ec.
           ++ rewrite Lib_sets.qsum_map_const. ring.
    + destruct (memb c g) eqn:Ec.
      * (* c stands here, a does not: no order of this position puts a first *)
        transitivity (qsum (map (fun _ : list cand => 0) (perms g))).
        -- apply qsum_map_ext_in. intros o Ho.
           rewrite pw_sum_in_group by (rewrite (Hmo a o Ho), (Hmo c o Ho), Ea, Ec; reflexivity).
           rewrite (before_notin cand ceqb ceqb_spec a c o); [reflexivity|].
           apply memb_false_iff. rewrite (Hmo a o Ho). exact Ea.
        -- rewrite Lib_sets.qsum_map_const. ring.
      * (* neither: the decision is taken further down *)
        transitivity (qsum (map (fun _ : list cand => pw_sum a c w tails) (perms g))).
        -- apply qsum_map_ext_in. intros o Ho.
           apply pw_sum_skip_group. rewrite (Hmo a o Ho), (Hmo c o Ho), Ea, Ec. reflexivity.
        -- rewrite Lib_sets.qsum_map_const. subst tails. rewrite (IH a c w Hac Hr), HT. ring.
Qed.

(* ------------------------------------------------------------------ *)
(** * the expansion of one ballot, and of a list of ballots *)

Lemma h2h_uniform : forall a c q (out : list ballot),
  Forall (fun b' => wt b' == q) out -> h2h out a c == pw_sum a c q (map rk out).
Proof.
  intros a c q out H. unfold Pairwise.h2h, pw_sum. induction H as [|b' out Hb _ IH].
  - reflexivity.
  - cbn [map]. rewrite !qsum_cons, IH. destruct (prefers a c (rk b')); [rewrite Hb|]; reflexivity.
Qed.

Lemma h2h_app : forall (l1 l2 : list ballot) a c, h2h (l1 ++ l2) a c == h2h l1 a c + h2h l2 a c.
Proof. intros l1 l2 a c. unfold Pairwise.h2h. rewrite map_app, Lib_rk.qsum_app. reflexivity. Qed.

Theorem expand_preserves_pairwise_gen : forall (b : ballot) out a c,
  expand_tied_ballot b = inl out -> Forall (@NoDup cand) (rk b) -> a <> c ->
  h2h out a c == wt b * pair_share (rk b) a c.
Proof.
  intros b out a c H Hnd Hac.
  destruct (expand_tied_ballot_ok cand b out H) as (_ & Hrk & HF & _).
  rewrite (h2h_uniform a c (wt b / Qnat (tie_divisor (rk b)))).
  - rewrite Hrk, (expand_pw_sum (rk b) a c _ Hac Hnd).
    pose proof (Qnat_pos _ (tie_divisor_pos cand (rk b))) as Hp. field. lra.
  - eapply Forall_impl; [|exact HF]. intros b' Hb'. apply Hb'.
Qed.

Theorem expand_preserves_pairwise : forall (b : ballot) out a c,
  expand_tied_ballot b = inl out -> NoDup (flat (rk b)) -> a <> c ->
  h2h out a c == wt b * pair_share (rk b) a c.
Proof.
  intros b out a c H Hnd Hac.
  apply expand_preserves_pairwise_gen; [exact H|apply NoDup_flat_groups; exact Hnd|exact Hac].
Qed.

Theorem expand_all_preserves_pairwise : forall (bs : list ballot) bss a c,
  Forall2 (fun b e => expand_tied_ballot b = inl e) bs bss ->
  Forall (fun b => NoDup (flat (rk b))) bs -> a <> c ->
  h2h (concat bss) a c == qsum (map (fun b => wt b * pair_share (rk b) a c) bs).
Proof.
  intros bs bss a c H. induction H as [|b e bs bss Hbe _ IH]; intros Hnd Hac.
  - reflexivity.
  - inversion Hnd as [|b0 bs0 Hb Hbs]; subst b0 bs0.
    cbn [concat map]. rewrite h2h_app, qsum_cons, (IH Hbs Hac).
    rewrite (expand_preserves_pairwise b e a c Hbe Hb Hac). reflexivity.
Qed.

(* ------------------------------------------------------------------ *)
(** * reading [pair_share] *)

(* when a and c never share a position the share is the model's own test on the tied ranking *)
Lemma pair_share_never_tied : forall (r : ranking) a c, never_tied r a c ->
  pair_share r a c == if prefers a c r then 1 else 0.
Proof.
  induction r as [|g r IH]; intros a c Hn; [reflexivity|].
  cbn [ExpandPairSpec.pair_share Pairwise.prefers].
  destruct (memb a g) eqn:Ea.
  - destruct (memb c g) eqn:Ec; [|reflexivity].
    exfalso. apply (Hn g); [left; reflexivity|apply memb_In; exact Ea|apply memb_In; exact Ec].
  - destruct (memb c g); [reflexivity|]. apply IH. intros g0 Hg0. apply (Hn g0). right. exact Hg0.
Qed.

(* hence on such a pair the expansion does not change the head-to-head count at all *)
Theorem expand_pairwise_never_tied : forall (b : ballot) out a c,
  expand_tied_ballot b = inl out -> NoDup (flat (rk b)) -> a <> c -> never_tied (rk b) a c ->
  h2h out a c == h2h [b] a c.
Proof.
  intros b out a c H Hnd Hac Hn. rewrite (expand_preserves_pairwise b out a c H Hnd Hac).
  rewrite (pair_share_never_tied (rk b) a c Hn). unfold Pairwise.h2h. cbn [map].
  rewrite qsum_cons, qsum_nil. destruct (prefers a c (rk b)); ring.
Qed.

(* the two directions share the ballot: together they get all of it when one of the two is listed,
   nothing otherwise *)
Lemma pair_share_total : forall (r : ranking) a c,
  pair_share r a c + pair_share r c a == if memb a (flat r) || memb c (flat r) then 1 else 0.
Proof.
  induction r as [|g r IH]; intros a c.
  - cbn. reflexivity.
  - cbn [ExpandPairSpec.pair_share]. rewrite (Lib_sets.flat_cons cand), !memb_app.
    destruct (memb a g) eqn:Ea; destruct (memb c g) eqn:Ec; cbn [orb].
    + field.
    + ring.
    + rewrite orb_true_r. ring.
    + apply IH.
Qed.

(* closed form: a listed and (c unlisted or a's position first) -> 1; shared position -> 1/2 *)
Lemma pair_share_cases : forall (r : ranking) a c,
  pair_share r a c == 1 \/ pair_share r a c == 1 / 2 \/ pair_share r a c == 0.
Proof.
  induction r as [|g r IH]; intros a c; cbn [ExpandPairSpec.pair_share].
  - right. right. reflexivity.
  - destruct (memb a g); [destruct (memb c g)|destruct (memb c g)].
    + right. left. reflexivity.
    + left. reflexivity.
    + right. right. reflexivity.
    + apply IH.
Qed.

Lemma pair_share_split : forall (pre : ranking) g post a c,
  ~ In a (flat pre) -> ~ In c (flat pre) ->
  pair_share (pre ++ g :: post) a c =
  if memb a g then (if memb c g then 1 / 2 else 1)
  else if memb c g then 0 else pair_share post a c.
Proof.
  induction pre as [|h pre IH]; intros g post a c Ha Hc; [reflexivity|].
  rewrite (Lib_sets.flat_cons cand) in Ha, Hc. cbn [app ExpandPairSpec.pair_share].
  assert (Eah : memb a h = false) by (apply memb_false_iff; intros H; apply Ha, in_or_app; left; exact H).
  assert (Ech : memb c h = false) by (apply memb_false_iff; intros H; apply Hc, in_or_app; left; exact H).
  rewrite Eah, Ech. apply IH; intros H; [apply Ha|apply Hc]; apply in_or_app; right; exact H.
Qed.

End PairExpand.
