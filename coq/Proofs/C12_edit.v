(* Proofs/C12_edit.v — C12, editing part: strip / scrub / remove_cand (three input types, both
   flags) and add_missing_cands.  Expansion of ties is in Proofs/C12_expand.v. *)
From VK Require Import Base Core EditSpec Lib_rk Lib_condense12.
From Coq Require Import Permutation Lia Lqa Setoid Morphisms.

Section WithCand.
Variable cand : Type.
Variable ceqb : cand -> cand -> bool.
Hypothesis ceqb_spec : forall a b, reflect (a = b) (ceqb a b).

Notation cset := (cset cand).
Notation ranking := (ranking cand).
Notation ballot := (ballot cand).
Notation profile := (profile cand).
Notation memb := (memb cand ceqb).
Notation ranking_eqb := (ranking_eqb cand ceqb).
Notation flat := (flat cand).
Notation strip := (strip cand ceqb).
Notation strip_scores := (strip_scores cand ceqb).
Notation scrub := (scrub cand ceqb).
Notation pos_wt := (pos_wt cand).
Notation set_diff := (set_diff cand ceqb).
Notation condense_bs := (condense_bs cand ceqb).
Notation remove_cand_bs := (remove_cand_bs cand ceqb).
Notation remove_cand_prof := (remove_cand_prof cand ceqb).
Notation remove_cand_ballot := (remove_cand_ballot cand ceqb).
Notation add_missing_ballot := (add_missing_ballot cand ceqb).
Notation add_missing := (add_missing cand ceqb).
Notation total_wt := (total_wt cand).
Notation wtof_rk := (wtof_rk cand ceqb).
Notation wt_where := (wt_where cand).
Notation maps_to := (maps_to cand ceqb).
Notation exhausted := (exhausted cand ceqb).
Notation score_free := (score_free cand).
Notation all_pos := (all_pos cand).
Notation same_group := (same_group cand).
Notation with_missing := (with_missing cand ceqb).

Let memb_In := memb_In cand ceqb ceqb_spec.
Let memb_false_iff := memb_false_iff cand ceqb ceqb_spec.

(* ====================== strip ====================== *)

Lemma strip_groups : forall removed r g',
  In g' (strip removed r) <->
  g' <> [] /\ exists g, In g r /\ g' = filter (fun c => negb (memb c removed)) g.
Proof.
  intros removed r g'. unfold Core.strip. rewrite filter_In, in_map_iff, nonempty_true_iff.
  split.
  - intros [(g & Hg & Hin) Hne]. split; [exact Hne|]. exists g. split; [exact Hin|symmetry; exact Hg].
  - intros [Hne (g & Hin & Hg)]. split; [|exact Hne]. exists g. split; [symmetry; exact Hg|exact Hin].
Qed.

Lemma strip_flat : forall removed r,
  flat (strip removed r) = filter (fun c => negb (memb c removed)) (flat r).
Proof.
  intros removed r. unfold Core.strip, Core.flat.
  rewrite concat_filter_nonempty, concat_map_filter. reflexivity.
Qed.

Lemma strip_no_removed : forall removed r c, In c (flat (strip removed r)) -> ~ In c removed.
Proof.
  intros removed r c H. rewrite strip_flat, filter_In, negb_true_iff in H.
  apply memb_false_iff. apply H.
Qed.

Lemma strip_keeps : forall removed r c,
  In c (flat (strip removed r)) <-> In c (flat r) /\ ~ In c removed.
Proof.
  intros removed r c. rewrite strip_flat, filter_In, negb_true_iff, memb_false_iff. reflexivity.
Qed.

Lemma strip_no_empty : forall removed r, Forall (fun g => g <> []) (strip removed r).
Proof.
  intros removed r. apply Forall_forall. intros g Hg. apply strip_groups in Hg. apply Hg.
Qed.

Lemma strip_same_group : forall removed r a b, ~ In a removed -> ~ In b removed ->
  (same_group (strip removed r) a b <-> same_group r a b).
Proof.
  intros removed r a b Ha Hb. unfold EditSpec.same_group. split.
  - intros (g' & Hg' & Hag & Hbg). apply strip_groups in Hg'.
    destruct Hg' as [_ (g & Hg & ->)]. exists g.
    rewrite filter_In in Hag, Hbg. split; [exact Hg|split; [apply Hag|apply Hbg]].
  - intros (g & Hg & Hag & Hbg).
    exists (filter (fun c => negb (memb c removed)) g).
    assert (Ha' : In a (filter (fun c => negb (memb c removed)) g)).
    { apply filter_In. split; [exact Hag|]. apply negb_true_iff, memb_false_iff. exact Ha. }
    assert (Hb' : In b (filter (fun c => negb (memb c removed)) g)).
    { apply filter_In. split; [exact Hbg|]. apply negb_true_iff, memb_false_iff. exact Hb. }
    split; [|split; assumption].
    apply strip_groups. split.
    + intros E. rewrite E in Ha'. destruct Ha'.
    + exists g. split; [exact Hg|reflexivity].
Qed.

Lemma strip_nil : forall r, strip [] r = filter nonempty r.
Proof.
  intros r. unfold Core.strip. f_equal. rewrite <- (map_id r) at 2. apply map_ext.
  intros g. apply filter_all_true. intros c _. reflexivity.
Qed.

Lemma strip_absent : forall removed r,
  (forall c, In c removed -> ~ In c (flat r)) -> Forall (fun g => g <> []) r ->
  strip removed r = r.
Proof.
  intros removed r. unfold Core.strip. induction r as [|g r IH]; intros Habs Hne; cbn [map filter].
  - reflexivity.
  - inversion Hne as [|x l Hg Hr]; subst.
    assert (Eg : filter (fun c => negb (memb c removed)) g = g).
    { apply filter_all_true. intros c Hc. apply negb_true_iff, memb_false_iff.
      intros Hrem. apply (Habs c Hrem). unfold Core.flat. cbn [concat]. apply in_or_app. left. exact Hc. }
    rewrite Eg. destruct g as [|c g]; [contradiction Hg; reflexivity|]. cbn [nonempty].
    f_equal. apply IH; [|exact Hr].
    intros c' Hc' Hin. apply (Habs c' Hc'). unfold Core.flat. cbn [concat]. apply in_or_app. right. exact Hin.
Qed.

(* removing a set twice / in two steps *)
Lemma strip_idem_nonempty : forall removed r, nonempty (strip removed r) = true -> strip removed r <> [].
Proof. intros removed r H. apply nonempty_true_iff. exact H. Qed.

(* bundled form *)
Theorem strip_order : forall removed r,
  strip removed r = filter nonempty (map (filter (fun c => negb (memb c removed))) r) /\
  flat (strip removed r) = filter (fun c => negb (memb c removed)) (flat r) /\
  Forall (fun g => g <> []) (strip removed r) /\
  (forall a b, ~ In a removed -> ~ In b removed ->
     (same_group (strip removed r) a b <-> same_group r a b)).
Proof.
  intros removed r. split; [reflexivity|]. split; [apply strip_flat|].
  split; [apply strip_no_empty|]. intros a b. apply strip_same_group.
Qed.

(* ====================== scrub ====================== *)

Lemma strip_scores_nil : forall removed, strip_scores removed [] = [].
Proof. reflexivity. Qed.

Lemma scrub_sf : forall removed b, sc b = [] ->
  scrub removed b =
  if nonempty (strip removed (rk b)) then mkBallot (strip removed (rk b)) (wt b) [] None None
  else mkBallot [] 0 [] None None.
Proof.
  intros removed b Hb. unfold Core.scrub. rewrite Hb, strip_scores_nil.
  destruct (strip removed (rk b)); reflexivity.
Qed.

Lemma scrub_sc_sf : forall removed b, sc b = [] -> sc (scrub removed b) = [].
Proof.
  intros removed b Hb. rewrite (scrub_sf removed b Hb).
  destruct (nonempty (strip removed (rk b))); reflexivity.
Qed.

Lemma scrub_ids : forall removed b,
  mkBallot (rk (scrub removed b)) (wt (scrub removed b)) (sc (scrub removed b)) None None
  = scrub removed b.
Proof.
  intros removed b. unfold Core.scrub.
  destruct (strip removed (rk b)), (strip_scores removed (sc b)); reflexivity.
Qed.

Theorem strip_scores_spec : forall removed d p,
  In p (strip_scores removed d) <-> In p d /\ ~ In (fst p) removed.
Proof.
  intros removed d p. unfold Core.strip_scores.
  rewrite filter_In, negb_true_iff, memb_false_iff. reflexivity.
Qed.

Theorem scrub_spec : forall removed b,
  rk (scrub removed b) = strip removed (rk b) /\
  sc (scrub removed b) = strip_scores removed (sc b) /\
  wt (scrub removed b) =
    (if nonempty (strip removed (rk b)) || nonempty (strip_scores removed (sc b))
     then wt b else 0) /\
  bid (scrub removed b) = None /\ vs (scrub removed b) = None.
Proof.
  intros removed b. unfold Core.scrub.
  destruct (strip removed (rk b)) as [|g r]; destruct (strip_scores removed (sc b)) as [|q d];
    repeat split.
Qed.

Lemma pos_wt_iff : forall b : ballot, pos_wt b = true <-> 0 < wt b.
Proof. intros b. unfold Core.pos_wt. apply Qlt_bool_iff. Qed.

(* a scrubbed ballot has positive weight iff the original has and something is left on it *)
Lemma scrub_pos : forall removed b,
  pos_wt (scrub removed b) =
  pos_wt b && (nonempty (strip removed (rk b)) || nonempty (strip_scores removed (sc b))).
Proof.
  intros removed b. unfold Core.scrub.
  destruct (strip removed (rk b)) as [|g r], (strip_scores removed (sc b)) as [|p d];
    cbn [nonempty orb]; rewrite ?andb_true_r, ?andb_false_r; reflexivity.
Qed.

Lemma map_scrub_sf : forall removed bs, score_free bs -> score_free (map (scrub removed) bs).
Proof.
  intros removed bs H. unfold EditSpec.score_free in *. apply Forall_forall.
  intros b' Hb'. apply in_map_iff in Hb'. destruct Hb' as (b & <- & Hb).
  apply scrub_sc_sf. rewrite Forall_forall in H. apply H. exact Hb.
Qed.

Lemma filter_sf : forall (p : ballot -> bool) bs, score_free bs -> score_free (filter p bs).
Proof.
  intros p bs H. unfold EditSpec.score_free in *. rewrite Forall_forall in *.
  intros b Hb. apply filter_In in Hb. apply H. apply Hb.
Qed.

(* ====================== remove_cand on a tuple of ballots ====================== *)

Definition kept_of (lz : bool) (l : list ballot) : list ballot :=
  if lz then l else filter pos_wt l.

Lemma remove_cand_bs_unfold : forall removed cf lz bs,
  remove_cand_bs removed cf lz bs =
  (if cf then condense_bs (kept_of lz (map (scrub removed) bs))
   else kept_of lz (map (scrub removed) bs)).
Proof. reflexivity. Qed.

Lemma kept_of_cons : forall lz (b : ballot) l,
  kept_of lz (b :: l) = (if lz || pos_wt b then [b] else []) ++ kept_of lz l.
Proof.
  intros lz b l. unfold kept_of. destruct lz; cbn [orb filter app]; [reflexivity|].
  destruct (pos_wt b); reflexivity.
Qed.

Lemma kept_sf : forall lz bs, score_free bs -> score_free (kept_of lz bs).
Proof. intros [|] bs H; cbn [kept_of]; [exact H|apply filter_sf; exact H]. Qed.

Lemma Qlt_bool_0_0 : Qlt_bool 0 0 = false.
Proof. reflexivity. Qed.

(* per-ranking weight before condensation: no hypothesis on weights *)
Lemma kept_scrub_wtof : forall removed lz r' bs, score_free bs -> nonempty r' = true ->
  wtof_rk r' (kept_of lz (map (scrub removed) bs)) ==
  wt_where (fun b => maps_to removed r' b && (lz || pos_wt b)) bs.
Proof.
  intros removed lz r' bs Hsf Hne. unfold EditSpec.score_free in Hsf.
  induction Hsf as [|b bs Hb _ IH].
  - destruct lz; reflexivity.
  - cbn [map]. rewrite kept_of_cons, wtof_rk_app, IH.
    unfold EditSpec.wt_where. cbn [filter].
    unfold EditSpec.maps_to at 2.
    rewrite (scrub_sf removed b Hb).
    destruct (nonempty (strip removed (rk b))) eqn:En.
    + unfold Core.pos_wt at 1. cbn [wt]. fold (pos_wt b).
      destruct (lz || pos_wt b) eqn:Ek.
      * rewrite andb_true_r. rewrite wtof_rk_cons, wtof_rk_nil. cbn [rk wt].
        destruct (ranking_eqb r' (strip removed (rk b))); cbn [map]; rewrite ?qsum_cons; lra.
      * rewrite andb_false_r. rewrite wtof_rk_nil. lra.
    + assert (E : ranking_eqb r' (strip removed (rk b)) = false).
      { apply nonempty_false_iff in En. rewrite En, ranking_eqb_nil_r, Hne. reflexivity. }
      rewrite E. cbn [andb].
      destruct (lz || _).
      * rewrite wtof_rk_cons, wtof_rk_nil. cbn [rk wt]. rewrite ranking_eqb_nil_r, Hne. cbn [negb]. lra.
      * rewrite wtof_rk_nil. lra.
Qed.

Theorem remove_weights_gen : forall removed cf lz bs r', score_free bs -> nonempty r' = true ->
  wtof_rk r' (remove_cand_bs removed cf lz bs) ==
  wt_where (fun b => maps_to removed r' b && (lz || pos_wt b)) bs.
Proof.
  intros removed cf lz bs r' Hsf Hne. rewrite remove_cand_bs_unfold. destruct cf.
  - rewrite (condense_wtof cand ceqb ceqb_spec).
    + apply kept_scrub_wtof; assumption.
    + apply kept_sf. apply map_scrub_sf. exact Hsf.
  - apply kept_scrub_wtof; assumption.
Qed.

Lemma wt_where_ext_in : forall (p q : ballot -> bool) bs,
  (forall b, In b bs -> p b = q b) -> wt_where p bs == wt_where q bs.
Proof.
  intros p q bs H. unfold EditSpec.wt_where. rewrite (filter_ext_in _ p q bs H). reflexivity.
Qed.

Theorem remove_weights : forall removed cf lz bs r', score_free bs -> all_pos bs ->
  nonempty r' = true ->
  wtof_rk r' (remove_cand_bs removed cf lz bs) == wt_where (maps_to removed r') bs.
Proof.
  intros removed cf lz bs r' Hsf Hpos Hne. rewrite remove_weights_gen by assumption.
  apply wt_where_ext_in. intros b Hb.
  unfold EditSpec.all_pos in Hpos. rewrite Forall_forall in Hpos.
  rewrite (proj2 (pos_wt_iff b) (Hpos b Hb)), orb_true_r, andb_true_r. reflexivity.
Qed.

(* total weight *)
Lemma kept_scrub_total : forall removed lz bs, score_free bs ->
  total_wt (kept_of lz (map (scrub removed) bs)) ==
  wt_where (fun b => negb (exhausted removed b) && (lz || pos_wt b)) bs.
Proof.
  intros removed lz bs Hsf. unfold EditSpec.score_free in Hsf.
  induction Hsf as [|b bs Hb _ IH].
  - destruct lz; reflexivity.
  - cbn [map]. rewrite kept_of_cons, total_wt_app, IH.
    unfold EditSpec.wt_where. cbn [filter]. unfold EditSpec.exhausted at 2.
    rewrite (scrub_sf removed b Hb).
    destruct (nonempty (strip removed (rk b))) eqn:En; cbn [negb andb].
    + unfold Core.pos_wt at 1. cbn [wt]. fold (pos_wt b).
      destruct (lz || pos_wt b); cbn [map]; rewrite ?qsum_cons.
      * rewrite total_wt_cons. cbn [wt]. unfold Core.total_wt at 1. cbn [map]. rewrite qsum_nil. lra.
      * unfold Core.total_wt at 1. cbn [map]. rewrite qsum_nil. lra.
    + destruct (lz || _).
      * rewrite total_wt_cons. cbn [wt]. unfold Core.total_wt at 1. cbn [map]. rewrite qsum_nil. lra.
      * unfold Core.total_wt at 1. cbn [map]. rewrite qsum_nil. lra.
Qed.

Theorem remove_total_gen : forall removed cf lz bs, score_free bs ->
  total_wt (remove_cand_bs removed cf lz bs) ==
  wt_where (fun b => negb (exhausted removed b) && (lz || pos_wt b)) bs.
Proof.
  intros removed cf lz bs Hsf. rewrite remove_cand_bs_unfold. destruct cf.
  - rewrite condense_total. apply kept_scrub_total. exact Hsf.
  - apply kept_scrub_total. exact Hsf.
Qed.

Lemma wt_where_split : forall (p : ballot -> bool) bs,
  total_wt bs == wt_where p bs + wt_where (fun b => negb (p b)) bs.
Proof.
  intros p bs. unfold EditSpec.wt_where, Core.total_wt.
  induction bs as [|b bs IH]; cbn [filter map].
  - rewrite qsum_nil. lra.
  - destruct (p b); cbn [negb map]; rewrite !qsum_cons, IH; lra.
Qed.

Theorem remove_loss : forall removed cf lz bs, score_free bs -> all_pos bs ->
  total_wt bs - total_wt (remove_cand_bs removed cf lz bs) == wt_where (exhausted removed) bs.
Proof.
  intros removed cf lz bs Hsf Hpos. rewrite remove_total_gen by exact Hsf.
  rewrite (wt_where_split (exhausted removed) bs).
  rewrite (wt_where_ext_in (fun b => negb (exhausted removed b) && (lz || pos_wt b))
                           (fun b => negb (exhausted removed b)) bs).
  - lra.
  - intros b Hb. unfold EditSpec.all_pos in Hpos. rewrite Forall_forall in Hpos.
    rewrite (proj2 (pos_wt_iff b) (Hpos b Hb)), orb_true_r, andb_true_r. reflexivity.
Qed.

(* leave_zero_weight_ballots = true, condense = false: nothing is dropped *)
Theorem remove_leave_zero : forall removed bs,
  remove_cand_bs removed false true bs = map (scrub removed) bs /\
  length (remove_cand_bs removed false true bs) = length bs /\
  (forall b, sc b = [] -> exhausted removed b = true ->
             scrub removed b = mkBallot [] 0 [] None None).
Proof.
  intros removed bs. split; [reflexivity|]. split; [cbn; apply map_length|].
  intros b Hb He. rewrite (scrub_sf removed b Hb). unfold EditSpec.exhausted in He.
  apply negb_true_iff in He. rewrite He. reflexivity.
Qed.

(* no removed candidate survives, and every output ranking is the stripped ranking of an input *)
Lemma scrub_rk : forall removed b, rk (scrub removed b) = strip removed (rk b).
Proof.
  intros removed b. unfold Core.scrub.
  destruct (strip removed (rk b)) as [|g r]; destruct (strip_scores removed (sc b)); reflexivity.
Qed.

Theorem remove_no_removed : forall removed cf lz bs k,
  In k (remove_cand_bs removed cf lz bs) ->
  (forall c, In c removed -> ~ In c (flat (rk k))) /\
  exists b, In b bs /\ rk k = strip removed (rk b).
Proof.
  intros removed cf lz bs k Hk. rewrite remove_cand_bs_unfold in Hk.
  assert (Hsrc : exists b', In b' (map (scrub removed) bs) /\ rk k = rk b').
  { assert (Hkept : forall x, In x (kept_of lz (map (scrub removed) bs)) ->
                              In x (map (scrub removed) bs)).
    { intros x. destruct lz; cbn [kept_of]; [tauto|]. rewrite filter_In. tauto. }
    destruct cf.
    - apply condense_rk_in in Hk. destruct Hk as (b' & Hb' & Hr).
      exists b'. split; [apply Hkept; exact Hb'|exact Hr].
    - exists k. split; [apply Hkept; exact Hk|reflexivity]. }
  destruct Hsrc as (b' & Hb' & Hr). apply in_map_iff in Hb'. destruct Hb' as (b & <- & Hb).
  rewrite scrub_rk in Hr. split.
  - intros c Hc Hin. rewrite Hr in Hin. apply (strip_no_removed _ _ _ Hin). exact Hc.
  - exists b. split; [exact Hb|exact Hr].
Qed.

(* conversely every surviving input ballot is represented (score-free inputs) *)
Theorem remove_all_represented : forall removed cf lz bs b, score_free bs -> In b bs ->
  (lz || pos_wt b) = true -> strip removed (rk b) <> [] ->
  exists k, In k (remove_cand_bs removed cf lz bs) /\
            ranking_eqb (rk k) (strip removed (rk b)) = true.
Proof.
  intros removed cf lz bs b Hsf Hb Hkeep Hne. rewrite remove_cand_bs_unfold.
  assert (Hin : In (scrub removed b) (kept_of lz (map (scrub removed) bs))).
  { assert (Hm : In (scrub removed b) (map (scrub removed) bs)) by (apply in_map; exact Hb).
    destruct lz; cbn [kept_of]; [exact Hm|]. apply filter_In. split; [exact Hm|].
    cbn [orb] in Hkeep. rewrite scrub_pos, Hkeep.
    apply nonempty_true_iff in Hne. rewrite Hne. reflexivity. }
  destruct cf.
  - rewrite <- scrub_rk. apply (condense_rk_matched cand ceqb ceqb_spec); [|exact Hin].
    apply kept_sf. apply map_scrub_sf. exact Hsf.
  - exists (scrub removed b). split; [exact Hin|]. rewrite scrub_rk.
    apply ranking_eqb_refl. exact ceqb_spec.
Qed.

(* ====================== remove_cand on a profile ====================== *)

Theorem remove_prof_cands : forall removed cf lz (p : profile), NoDup (cands p) ->
  exists p', remove_cand_prof removed cf lz p = inl p' /\
    ballots p' = remove_cand_bs removed cf lz (ballots p) /\
    (set_diff (cands p) removed <> [] ->
       cands p' = set_diff (cands p) removed /\
       NoDup (cands p') /\
       (forall c, In c (cands p') <-> In c (cands p) /\ ~ In c removed)) /\
    (set_diff (cands p) removed = [] ->
       cands p' = cast_cands cand ceqb (remove_cand_bs removed cf lz (ballots p))).
Proof.
  intros removed cf lz p Hnd. unfold Core.remove_cand_prof, mk_profile.
  assert (Hnd' : NoDup (set_diff (cands p) removed)) by (apply set_diff_NoDup; exact Hnd).
  rewrite (proj2 (has_dup_false_iff cand ceqb ceqb_spec _) Hnd').
  eexists. split; [reflexivity|]. cbn [ballots cands]. split; [reflexivity|]. split.
  - intros Hne. destruct (set_diff (cands p) removed) as [|c l] eqn:E; [contradiction Hne; reflexivity|].
    split; [reflexivity|]. split; [exact Hnd'|].
    intros c'. rewrite <- E. apply set_diff_In. exact ceqb_spec.
  - intros E. rewrite E. reflexivity.
Qed.

(* the only possible error is a repeated candidate in the profile's candidate list *)
Theorem remove_prof_error : forall removed cf lz (p : profile) e,
  remove_cand_prof removed cf lz p = inr e ->
  e = EValue /\ ~ NoDup (set_diff (cands p) removed).
Proof.
  intros removed cf lz p e. unfold Core.remove_cand_prof, mk_profile.
  destruct (has_dup cand ceqb (set_diff (cands p) removed)) eqn:E.
  - intros H. injection H as <-. split; [reflexivity|].
    intros Hnd. apply (has_dup_false_iff cand ceqb ceqb_spec) in Hnd. congruence.
  - discriminate.
Qed.

(* ====================== remove_cand on a single ballot ====================== *)

(* after the repair of the Python code: never fails, returns the scrubbed ballot, flags ignored *)
Theorem remove_ballot_eq : forall removed cf lz b,
  remove_cand_ballot removed cf lz b = inl (scrub removed b).
Proof. reflexivity. Qed.

Theorem remove_ballot_spec : forall removed cf lz b,
  exists b', remove_cand_ballot removed cf lz b = inl b' /\
    b' = scrub removed b /\
    (forall c, In c removed -> ~ In c (flat (rk b'))) /\
    rk b' = strip removed (rk b) /\
    sc b' = strip_scores removed (sc b) /\
    wt b' = (if nonempty (strip removed (rk b)) || nonempty (strip_scores removed (sc b))
             then wt b else 0) /\
    (strip removed (rk b) = [] -> strip_scores removed (sc b) = [] ->
       b' = mkBallot [] 0 [] None None).
Proof.
  intros removed cf lz b. exists (scrub removed b).
  destruct (scrub_spec removed b) as (Hr & Hs & Hw & Hb & Hv).
  split; [reflexivity|]. split; [reflexivity|]. split; [|split; [exact Hr|split; [exact Hs|split; [exact Hw|]]]].
  - intros c Hc Hin. rewrite Hr in Hin. apply (strip_no_removed _ _ _ Hin). exact Hc.
  - intros E1 E2. unfold Core.scrub. rewrite E1, E2. reflexivity.
Qed.

(* ====================== add_missing_cands ====================== *)

Lemma add_missing_ballot_eq : forall cs b,
  add_missing_ballot cs b =
  if nonempty (rk b) then inl (mkBallot (with_missing cs (rk b)) (wt b) [] (bid b) (vs b))
  else inr EType.
Proof.
  intros cs b. unfold Core.add_missing_ballot, EditSpec.with_missing.
  destruct (rk b) as [|g r]; [reflexivity|]. cbn [nonempty]. unfold ok. f_equal. f_equal.
  destruct (set_diff cs (flat (g :: r))); [rewrite app_nil_r|]; reflexivity.
Qed.

Theorem add_missing_ballot_ok : forall cs b b',
  add_missing_ballot cs b = inl b' ->
  rk b <> [] /\ rk b' = with_missing cs (rk b) /\ wt b' = wt b /\ sc b' = [] /\
  bid b' = bid b /\ vs b' = vs b.
Proof.
  intros cs b b'. rewrite add_missing_ballot_eq.
  destruct (nonempty (rk b)) eqn:E; [|discriminate].
  intros H. injection H as <-. split; [apply nonempty_true_iff; exact E|].
  repeat split.
Qed.

Theorem add_missing_ballot_err : forall cs b e,
  add_missing_ballot cs b = inr e <-> (rk b = [] /\ e = EType).
Proof.
  intros cs b e. rewrite add_missing_ballot_eq.
  destruct (rk b) as [|g r]; cbn [nonempty].
  - split; [intros H; injection H as <-; split; reflexivity|intros [_ ->]; reflexivity].
  - split; [discriminate|intros [H _]; discriminate].
Qed.

(* what the appended last group is *)
Theorem with_missing_spec : forall cs r,
  (set_diff cs (flat r) = [] /\ with_missing cs r = r) \/
  (exists m, m <> [] /\ with_missing cs r = r ++ [m] /\
             forall c, In c m <-> In c cs /\ ~ In c (flat r)).
Proof.
  intros cs r. unfold EditSpec.with_missing.
  destruct (set_diff cs (flat r)) as [|c m] eqn:E.
  - left. split; [reflexivity|apply app_nil_r].
  - right. exists (c :: m). split; [discriminate|]. split; [reflexivity|].
    intros c'. rewrite <- E. apply set_diff_In. exact ceqb_spec.
Qed.

Lemma add_missing_fold_wtof : forall cs r' bs bs',
  Forall2 (fun b b' => add_missing_ballot cs b = inl b') bs bs' ->
  wtof_rk r' bs' == wt_where (fun b => ranking_eqb r' (with_missing cs (rk b))) bs /\
  score_free bs' /\ total_wt bs' == total_wt bs.
Proof.
  intros cs r' bs bs' H. induction H as [|b b' bs bs' Hb _ IH].
  - split; [reflexivity|]. split; [constructor|reflexivity].
  - destruct IH as (IH1 & IH2 & IH3).
    apply add_missing_ballot_ok in Hb. destruct Hb as (_ & Hr & Hw & Hs & _).
    split; [|split].
    + rewrite wtof_rk_cons, IH1. unfold EditSpec.wt_where. cbn [filter]. rewrite Hr, Hw.
      destruct (ranking_eqb r' (with_missing cs (rk b))); cbn [map]; rewrite ?qsum_cons; lra.
    + constructor; [exact Hs|exact IH2].
    + rewrite !total_wt_cons, IH3, Hw. reflexivity.
Qed.

Theorem add_missing_weights : forall (p p' : profile),
  add_missing p = inl p' ->
  cands p' = cands p /\
  total_wt (ballots p') == total_wt (ballots p) /\
  forall r', wtof_rk r' (ballots p') ==
             wt_where (fun b => ranking_eqb r' (with_missing (cands p) (rk b))) (ballots p).
Proof.
  intros p p'. unfold Core.add_missing, rbind.
  destruct (rmap (add_missing_ballot (cands p)) (ballots p)) as [bs|e] eqn:E; [|discriminate].
  intros H. injection H as <-. cbn [cands ballots].
  apply rmap_ok_inv in E. split; [reflexivity|]. split.
  - rewrite condense_total.
    destruct (add_missing_fold_wtof (cands p) [] _ _ E) as (_ & _ & Ht). exact Ht.
  - intros r'. destruct (add_missing_fold_wtof (cands p) r' _ _ E) as (Hw & Hs & _).
    rewrite (condense_wtof cand ceqb ceqb_spec r' bs Hs). exact Hw.
Qed.

Theorem add_missing_error : forall (p : profile) e,
  add_missing p = inr e <-> (e = EType /\ exists b, In b (ballots p) /\ rk b = []).
Proof.
  intros p e. unfold Core.add_missing, rbind.
  destruct (rmap (add_missing_ballot (cands p)) (ballots p)) as [bs|e'] eqn:E.
  - split; [discriminate|]. intros [_ (b & Hb & Hr)].
    apply rmap_ok_inv in E. exfalso.
    induction E as [|x y l l' Hxy _ IH]; [destruct Hb|].
    destruct Hb as [<-|Hb]; [|apply IH; exact Hb].
    apply add_missing_ballot_ok in Hxy. apply (proj1 Hxy). exact Hr.
  - apply rmap_err_inv in E. destruct E as (l1 & b & l2 & Hl & Hb & _).
    apply add_missing_ballot_err in Hb. destruct Hb as [Hr ->].
    split.
    + intros H. injection H as <-. split; [reflexivity|].
      exists b. split; [rewrite Hl; apply in_or_app; right; left; reflexivity|exact Hr].
    + intros [-> _]. reflexivity.
Qed.

End WithCand.
