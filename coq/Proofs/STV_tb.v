(* Proofs/STV_tb.v — the tie-breakers as used by STV: they only consume the script (the rest of
   the script is a suffix), on a valid profile they fail only with EScript (or ValueError for an
   unknown tie-break name), and a first-place tie-break of a set of candidates of a valid profile
   is a linear order of that set sorted by decreasing first-place tally. *)
From VK Require Import Base Core STV EditSpec ScoreSpec STVSpec.
From VK.Proofs Require Import Lib_sets Lib_rk C04_scoring Elect STV_lib.
From Coq Require Import Permutation Lia Lqa Setoid Morphisms.

Section WithCand.
Variable cand : Type.
Variable ceqb : cand -> cand -> bool.
Hypothesis ceqb_spec : forall a b, reflect (a = b) (ceqb a b).

Notation cset := (cset cand).
Notation ranking := (ranking cand).
Notation profile := (profile cand).
Notation scores := (scores cand).
Notation mstate := (mstate cand).
Notation flat := (flat cand).
Notation wf_stv0 := (wf_stv0 cand).
Notation first_place_votes := (first_place_votes cand ceqb).
Notation borda_scores := (borda_scores cand ceqb).
Notation draw_perm := (draw_perm cand ceqb).
Notation random_break := (random_break cand ceqb).
Notation tiebreak_set := (tiebreak_set cand ceqb).
Notation elect_top_m := (elect_top_m cand ceqb).
Notation singletons := (singletons cand).
Notation scr_suffix := (scr_suffix cand).

(* ---------- draws ---------- *)

Lemma draw_perm_suffix : forall g (s s' : mstate) l, draw_perm g s = inl (l, s') -> scr_suffix s s'.
Proof.
  intros g s s' l H. apply (draw_perm_inv cand ceqb ceqb_spec) in H.
  destruct H as (_ & _ & rest & Hs & ->). exists [DPerm l]. rewrite Hs. reflexivity.
Qed.

Lemma draw_perm_err : forall g (s : mstate) e, draw_perm g s = inr e -> e = EScript.
Proof.
  intros g s e H. unfold Core.draw_perm, mbind, Core.next_draw in H.
  destruct (scr s) as [|d rest]; [injection H as <-; reflexivity|]. unfold ok in H.
  destruct d; try (injection H as <-; reflexivity).
  destruct (is_perm_of cand ceqb l g); [discriminate|]. injection H as <-. reflexivity.
Qed.

Lemma random_break_suffix : forall r (s s' : mstate) t,
  random_break r s = inl (t, s') -> scr_suffix s s'.
Proof.
  induction r as [|g r IH]; intros s s' t H.
  - cbn [Core.random_break] in H. injection H as _ <-. apply scr_suffix_refl.
  - cbn [Core.random_break] in H. destruct g as [|a [|b g]].
    + unfold mbind in H. destruct (random_break r s) as [[rest s1]|e] eqn:E; [|discriminate].
      injection H as _ <-. apply (IH _ _ _ E).
    + unfold mbind in H. destruct (random_break r s) as [[rest s1]|e] eqn:E; [|discriminate].
      injection H as _ <-. apply (IH _ _ _ E).
    + unfold mbind in H. destruct (draw_perm (a :: b :: g) s) as [[l s1]|e] eqn:E1; [|discriminate].
      destruct (random_break r s1) as [[rest s2]|e] eqn:E2; [|discriminate].
      injection H as _ <-. eapply scr_suffix_trans; [apply (draw_perm_suffix _ _ _ _ E1)|apply (IH _ _ _ E2)].
Qed.

Lemma random_break_err : forall r (s : mstate) e, random_break r s = inr e -> e = EScript.
Proof.
  induction r as [|g r IH]; intros s e H.
  - discriminate.
  - cbn [Core.random_break] in H. destruct g as [|a [|b g]].
    + unfold mbind in H. destruct (random_break r s) as [[rest s1]|e'] eqn:E; [discriminate|].
      injection H as <-. apply (IH _ _ E).
    + unfold mbind in H. destruct (random_break r s) as [[rest s1]|e'] eqn:E; [discriminate|].
      injection H as <-. apply (IH _ _ E).
    + unfold mbind in H. destruct (draw_perm (a :: b :: g) s) as [[l s1]|e'] eqn:E1.
      * destruct (random_break r s1) as [[rest s2]|e''] eqn:E2; [discriminate|].
        injection H as <-. apply (IH _ _ E2).
      * injection H as <-. apply (draw_perm_err _ _ _ E1).
Qed.

(* ---------- Borda scores of a valid profile exist ---------- *)

Lemma borda_vector_head : forall n x v, borda_vector n = x :: v -> x == Qnat n.
Proof. intros [|n] x v H; [discriminate|]. cbn [borda_vector] in H. injection H as <- _. reflexivity. Qed.

Lemma borda_vector_valid : forall n, valid_vector (borda_vector n).
Proof.
  induction n as [|n [IH1 IH2]]; [split; [constructor|exact I]|].
  cbn [borda_vector]. split.
  - constructor; [apply Qnat_nonneg|exact IH1].
  - cbn [non_increasing]. split; [|exact IH2].
    destruct (borda_vector n) as [|y v] eqn:E; [exact I|].
    rewrite (borda_vector_head n y v E), Qnat_S. pose proof (Qnat_nonneg n). lra.
Qed.

Lemma borda_succeeds : forall p, wf_stv0 p -> exists d, borda_scores p = inl d.
Proof.
  intros p Hwf. unfold Core.borda_scores.
  apply (c04_scored_proof cand ceqb ceqb_spec); [apply wf_stv0_wf_profile; exact Hwf|].
  apply borda_vector_valid.
Qed.

(* ---------- tiebreak_set ---------- *)

Lemma tiebreak_set_suffix : forall g p kind (s s' : mstate) t,
  tiebreak_set g p kind s = inl (t, s') -> scr_suffix s s'.
Proof.
  intros g p kind s s' t H. unfold Core.tiebreak_set in H. destruct kind.
  - unfold mbind in H. destruct (draw_perm g s) as [[l s1]|e] eqn:E; [|discriminate].
    injection H as _ <-. apply (draw_perm_suffix _ _ _ _ E).
  - destruct p as [pr|]; [|discriminate]. unfold mbind, mlift in H.
    destruct (first_place_votes pr) as [d|e]; [|discriminate]. cbn in H.
    match type of H with (if ?c then _ else _) _ = _ => destruct c end.
    + apply (random_break_suffix _ _ _ _ H).
    + injection H as _ <-. apply scr_suffix_refl.
  - destruct p as [pr|]; [|discriminate]. unfold mbind, mlift in H.
    destruct (borda_scores pr) as [d|e]; [|discriminate]. cbn in H.
    match type of H with (if ?c then _ else _) _ = _ => destruct c end.
    + apply (random_break_suffix _ _ _ _ H).
    + injection H as _ <-. apply scr_suffix_refl.
  - discriminate.
Qed.

Lemma tiebreak_set_err : forall g pr kind (s : mstate) e, wf_stv0 pr ->
  tiebreak_set g (Some pr) kind s = inr e -> e = EScript \/ (kind = TBInvalid /\ e = EValue).
Proof.
  intros g pr kind s e Hwf H. unfold Core.tiebreak_set in H. destruct kind.
  - left. unfold mbind in H. destruct (draw_perm g s) as [[l s1]|e'] eqn:E; [discriminate|].
    injection H as <-. apply (draw_perm_err _ _ _ E).
  - left. unfold mbind, mlift in H. destruct (fpv_succeeds cand ceqb ceqb_spec pr Hwf) as [d Hd].
    rewrite Hd in H. cbn in H.
    match type of H with (if ?c then _ else _) _ = _ => destruct c end.
    + apply (random_break_err _ _ _ H).
    + discriminate.
  - left. unfold mbind, mlift in H. destruct (borda_succeeds pr Hwf) as [d Hd].
    rewrite Hd in H. cbn in H.
    match type of H with (if ?c then _ else _) _ = _ => destruct c end.
    + apply (random_break_err _ _ _ H).
    + discriminate.
  - right. injection H as <-. split; reflexivity.
Qed.

(* a successful tie-break of a non-empty duplicate-free set of candidates of a valid profile *)
Lemma tiebreak_set_wf : forall g pr kind (s s' : mstate) t, wf_stv0 pr ->
  NoDup g -> g <> [] -> incl g (cands pr) ->
  tiebreak_set g (Some pr) kind s = inl (t, s') ->
  exists l, t = singletons l /\ Permutation l g.
Proof.
  intros g pr kind s s' t Hwf Hnd Hne Hincl H.
  apply (tiebreak_set_linear cand ceqb ceqb_spec g (Some pr) kind s s' t Hnd Hne); [|exact H].
  unfold tb_profile_ok. destruct kind; try exact I; intros pr' E; injection E as <-;
    (split; [apply Hwf|exact Hincl]).
Qed.

Lemma rev_singletons : forall l, rev (singletons l) = singletons (rev l).
Proof. intros l. unfold Core.singletons. symmetry. apply map_rev. Qed.

(* ---------- choosing one seat from a ranking ---------- *)

Lemma elect_top_1_eq : forall (g : cset) rest p tb (s : mstate), g <> [] ->
  elect_top_m (g :: rest) 1 p tb s =
  if Nat.leb (length g) 1 then inl (([g], rest, None), s)
  else match tb with
       | None => inr EValue
       | Some k =>
           match tiebreak_set g p k s with
           | inl (t, s1) => inl ((firstn 1 t, skipn 1 t ++ rest, Some (g, t)), s1)
           | inr e => inr e
           end
       end.
Proof.
  intros g rest p tb s Hg. unfold Core.elect_top_m.
  change (1 <? 1)%Z with false. cbv iota.
  assert (Hsz : (Z.of_nat (ranking_size cand (g :: rest)) <? 1)%Z = false).
  { apply Z.ltb_ge. unfold Core.ranking_size, Core.flat. cbn [concat]. rewrite app_length.
    destruct g; [contradiction Hg; reflexivity|]. cbn [length]. lia. }
  rewrite Hsz. change (Z.to_nat 1) with 1%nat. cbn [Core.elect_loop].
  destruct (Nat.leb (length g) 1) eqn:El.
  - apply Nat.leb_le in El. destruct g as [|a [|b g]]; [contradiction Hg; reflexivity| |cbn in El; lia].
    destruct rest; reflexivity.
  - destruct tb as [k|]; [|reflexivity]. unfold mbind.
    destruct (tiebreak_set g p k s) as [[t s1]|e]; reflexivity.
Qed.

End WithCand.
