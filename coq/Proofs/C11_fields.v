(* Proofs/C11_fields.v — property C11: total weight under condensing, independent
   characterisations of [ranking_eqb] / [scores_eqb], and the derived fields of a profile
   (statements in Properties/C11_fields.v). *)
From Coq Require Import List ZArith QArith Bool Permutation Lia Setoid PeanoNat.
From VK Require Import Base Core.
From VK.Spec Require Import Content FieldsSpec.
From VK.Proofs Require Import Lib_content Lib_condense C11_condense C11_profile.
Import ListNotations.

Section C11Fields.
Variable cand : Type.
Variable ceqb : cand -> cand -> bool.
Hypothesis ceqb_spec : forall a b, reflect (a = b) (ceqb a b).

Local Notation ballot := (Core.ballot cand).
Local Notation profile := (Core.profile cand).
Local Notation scores := (Core.scores cand).
Local Notation ranking := (Core.ranking cand).
Local Notation same := (same_content cand ceqb).
Local Notation wtof := (Content.wtof cand ceqb).
Local Notation acc_add := (Core.acc_add cand ceqb).
Local Notation condense_bs := (Core.condense_bs cand ceqb).
Local Notation condense := (Core.condense cand ceqb).
Local Notation ranking_eqb := (Core.ranking_eqb cand ceqb).
Local Notation scores_eqb := (Core.scores_eqb cand ceqb).
Local Notation lookup := (Core.lookup cand ceqb).
Local Notation lookup0 := (Core.lookup0 cand ceqb).
Local Notation mk_profile := (Core.mk_profile cand ceqb).
Local Notation profile_add := (Core.profile_add cand ceqb).
Local Notation cast_cands := (Core.cast_cands cand ceqb).
Local Notation total_wt := (Core.total_wt cand).
Local Notation num_ballots := (FieldsSpec.num_ballots cand).
Local Notation total_ballot_wt := (FieldsSpec.total_ballot_wt cand).
Local Notation candidates_cast := (FieldsSpec.candidates_cast cand ceqb).
Local Notation mentions := (FieldsSpec.mentions_cand cand).
Local Notation functional := (FieldsSpec.functional_scores cand).

(* ================= 1. totals under condensing ================= *)
Lemma condense_total bs : total_wt (condense_bs bs) == total_wt bs.
Proof. exact (condense_bs_total_wt cand ceqb bs). Qed.

Lemma acc_add_length acc b : (length (acc_add acc b) <= S (length acc))%nat.
Proof.
  induction acc as [|k acc IH]; cbn [Core.acc_add length]; [lia|].
  destruct (Core.key_match cand ceqb k b); cbn [length]; lia.
Qed.

Lemma acc_add_length_ge acc b : (length acc <= length (acc_add acc b))%nat.
Proof.
  induction acc as [|k acc IH]; cbn [Core.acc_add length]; [lia|].
  destruct (Core.key_match cand ceqb k b); cbn [length]; lia.
Qed.

Lemma fold_length bs : forall acc,
  (length acc <= length (fold_left acc_add bs acc) <= length acc + length bs)%nat.
Proof.
  induction bs as [|b bs IH]; intro acc; cbn [fold_left length]; [lia|].
  pose proof (IH (acc_add acc b)) as H. pose proof (acc_add_length acc b).
  pose proof (acc_add_length_ge acc b). lia.
Qed.

Lemma condense_length bs : (length (condense_bs bs) <= length bs)%nat.
Proof. unfold Core.condense_bs. pose proof (fold_length bs []) as H. cbn [length] in H. lia. Qed.

Lemma condense_nonempty bs : bs <> [] -> condense_bs bs <> [].
Proof.
  destruct bs as [|b bs]; [intro H; contradiction H; reflexivity|]. intros _ E.
  unfold Core.condense_bs in E. cbn [fold_left] in E.
  pose proof (fold_length bs (acc_add [] b)) as H. rewrite E in H. cbn [Core.acc_add length] in H. lia.
Qed.

Lemma condense_profile_fields (p : profile) :
  cands (condense p) = cands p /\
  total_ballot_wt (condense p) == total_ballot_wt p /\
  (num_ballots (condense p) <= num_ballots p)%nat /\
  (num_ballots p = 0%nat <-> num_ballots (condense p) = 0%nat).
Proof.
  unfold FieldsSpec.total_ballot_wt, FieldsSpec.num_ballots, Core.condense. cbn [ballots cands].
  split; [reflexivity|]. split; [apply condense_total|]. split; [apply condense_length|].
  split; intro H.
  - apply length_zero_iff_nil in H. rewrite H. reflexivity.
  - destruct (ballots p) as [|b bs] eqn:E; [reflexivity|]. exfalso.
    apply length_zero_iff_nil in H. revert H. apply condense_nonempty. discriminate.
Qed.

(* ================= 2a. ranking_eqb ================= *)
Lemma incl2_iff (a b : list cand) : (incl a b /\ incl b a) <-> (forall c, In c a <-> In c b).
Proof.
  unfold incl. split.
  - intros [A B] c. split; [apply A | apply B].
  - intro H. split; intros c Hc; apply H; exact Hc.
Qed.

Lemma ranking_eqb_spec r1 : forall r2,
  ranking_eqb r1 r2 = true <-> Forall2 (fun s1 s2 : list cand => forall c, In c s1 <-> In c s2) r1 r2.
Proof.
  induction r1 as [|s1 r1 IH]; intros [|s2 r2].
  - split; [constructor | reflexivity].
  - split; intro H; [discriminate H | inversion H].
  - split; intro H; [discriminate H | inversion H].
  - rewrite (ranking_eqb_cons cand ceqb), andb_true_iff, (cset_eqb_iff cand ceqb ceqb_spec), IH, incl2_iff.
    split.
    + intros [A B]. constructor; assumption.
    + intro H. inversion H; subst. split; assumption.
Qed.

Lemma ranking_eqb_reflect r1 r2 :
  reflect (Forall2 (fun s1 s2 : list cand => forall c, In c s1 <-> In c s2) r1 r2) (ranking_eqb r1 r2).
Proof. apply iff_reflect. symmetry. apply ranking_eqb_spec. Qed.

Lemma ranking_eqb_nth r1 : forall r2,
  ranking_eqb r1 r2 = true <->
  length r1 = length r2 /\ forall i c, In c (nth i r1 []) <-> In c (nth i r2 []).
Proof.
  induction r1 as [|s1 r1 IH]; intros [|s2 r2].
  - split; [|reflexivity]. intros _. split; [reflexivity|]. intros i c. reflexivity.
  - split; intro H; [discriminate H | destruct H as [H _]; discriminate H].
  - split; intro H; [discriminate H | destruct H as [H _]; discriminate H].
  - rewrite (ranking_eqb_cons cand ceqb), andb_true_iff, (cset_eqb_iff cand ceqb ceqb_spec), IH, incl2_iff.
    split.
    + intros [A [L B]]. split; [cbn [length]; f_equal; exact L|].
      intros [|i] c; cbn [nth]; [apply A | apply B].
    + intros [L H]. split; [|split].
      * intro c. exact (H 0%nat c).
      * cbn [length] in L. injection L as L. exact L.
      * intros i c. exact (H (S i) c).
Qed.

(* ================= 2b. scores_eqb ================= *)
Lemma scores_eqb_pairs (d1 d2 : scores) :
  scores_eqb d1 d2 = true <->
  (forall c v, In (c, v) d1 -> exists v', In (c, v') d2 /\ v == v') /\
  (forall c v, In (c, v) d2 -> exists v', In (c, v') d1 /\ v == v').
Proof.
  rewrite (scores_eqb_iff cand ceqb ceqb_spec). unfold sincl, peq.
  assert (forall a b : scores,
    (forall p, In p a -> exists p', In p' b /\ fst p = fst p' /\ snd p == snd p') <->
    (forall c v, In (c, v) a -> exists v', In (c, v') b /\ v == v')) as K.
  { intros a b. split.
    - intros H c v Hin. destruct (H _ Hin) as [[c' v'] [Hin' [E1 E2]]]. cbn [fst snd] in E1, E2.
      subst c'. exists v'. split; assumption.
    - intros H [c v] Hin. destruct (H c v Hin) as [v' [Hin' E]].
      exists (c, v'). split; [exact Hin' | split; [reflexivity | exact E]]. }
  rewrite (K d1 d2), (K d2 d1). reflexivity.
Qed.

Lemma scores_eqb_reflect (d1 d2 : scores) :
  reflect ((forall c v, In (c, v) d1 -> exists v', In (c, v') d2 /\ v == v') /\
           (forall c v, In (c, v) d2 -> exists v', In (c, v') d1 /\ v == v'))
          (scores_eqb d1 d2).
Proof. apply iff_reflect. symmetry. apply scores_eqb_pairs. Qed.

Lemma scores_eqb_keys (d1 d2 : scores) :
  scores_eqb d1 d2 = true -> forall c, In c (map fst d1) <-> In c (map fst d2).
Proof.
  intro H. apply scores_eqb_pairs in H as [A B]. intro c. split; intro Hc;
    apply in_map_iff in Hc as [[c' v] [E Hin]]; cbn [fst] in E; subst c'.
  - destruct (A c v Hin) as [v' [Hin' _]]. apply in_map_iff. exists (c, v'). split; [reflexivity | exact Hin'].
  - destruct (B c v Hin) as [v' [Hin' _]]. apply in_map_iff. exists (c, v'). split; [reflexivity | exact Hin'].
Qed.

(* lookup: the value of the FIRST entry with the key *)
Lemma lookup_Some_In c (d : scores) q : lookup c d = Some q -> In (c, q) d.
Proof.
  unfold Core.lookup. destruct (find (fun p => ceqb c (fst p)) d) as [[c' v]|] eqn:E; [|discriminate].
  intro H. injection H as <-. apply find_some in E as [Hin Hc]. cbn [fst snd] in *.
  apply (ceqb_eq cand ceqb ceqb_spec) in Hc. subst c'. exact Hin.
Qed.

Lemma lookup_None_iff c (d : scores) : lookup c d = None <-> forall v, ~ In (c, v) d.
Proof.
  unfold Core.lookup. destruct (find (fun p => ceqb c (fst p)) d) as [[c' v]|] eqn:E.
  - split; [discriminate|]. intro H. exfalso. apply find_some in E as [Hin Hc]. cbn [fst] in Hc.
    apply (ceqb_eq cand ceqb ceqb_spec) in Hc. subst c'. exact (H v Hin).
  - split; [|reflexivity]. intros _ v Hin.
    pose proof (find_none _ _ E _ Hin) as F. cbn [fst] in F.
    rewrite (ceqb_refl cand ceqb ceqb_spec) in F. discriminate F.
Qed.

Lemma lookup_cons c c' v (d : scores) :
  lookup c ((c', v) :: d) = if ceqb c c' then Some v else lookup c d.
Proof. unfold Core.lookup. cbn [find fst snd]. destruct (ceqb c c'); reflexivity. Qed.

Lemma In_lookup c v (d : scores) : In (c, v) d -> exists q, lookup c d = Some q /\ In (c, q) d.
Proof.
  intro Hin. destruct (lookup c d) as [q|] eqn:E.
  - exists q. split; [reflexivity | apply lookup_Some_In; exact E].
  - exfalso. exact (proj1 (lookup_None_iff c d) E v Hin).
Qed.

Lemma NoDup_keys_functional (d : scores) : NoDup (map fst d) -> functional d.
Proof.
  unfold FieldsSpec.functional_scores.
  induction d as [|[c0 v0] d IH]; intros ND c v v' H1 H2; [destruct H1|].
  cbn [map fst] in ND. inversion ND as [|x l Hn Hd]; subst.
  assert (forall w, In (c0, w) d -> False) as No.
  { intros w Hw. apply Hn. apply in_map_iff. exists (c0, w). split; [reflexivity | exact Hw]. }
  destruct H1 as [H1|H1]; destruct H2 as [H2|H2].
  - injection H1 as <- <-. injection H2 as <-. reflexivity.
  - injection H1 as <- <-. exfalso. exact (No _ H2).
  - injection H2 as <- <-. exfalso. exact (No _ H1).
  - exact (IH Hd c v v' H1 H2).
Qed.

Lemma functional_lookup (d : scores) c v : functional d -> In (c, v) d -> exists q, lookup c d = Some q /\ q == v.
Proof.
  intros F Hin. destruct (In_lookup c v d Hin) as [q [E Hq]]. exists q. split; [exact E|].
  exact (F c q v Hq Hin).
Qed.

Lemma scores_eqb_functional (d1 d2 : scores) :
  scores_eqb d1 d2 = true -> functional d1 -> functional d2.
Proof.
  intros H F c v v' H1 H2. apply scores_eqb_pairs in H as [_ B].
  destruct (B c v H1) as [w [Hw E]]. destruct (B c v' H2) as [w' [Hw' E']].
  rewrite E, E'. exact (F c w w' Hw Hw').
Qed.

Lemma scores_eqb_lookup_fwd (d1 d2 : scores) :
  functional d1 \/ functional d2 ->
  scores_eqb d1 d2 = true -> forall c, opt_Qeq (lookup c d1) (lookup c d2).
Proof.
  intros F H c.
  assert (functional d2) as F2.
  { destruct F as [F|F]; [eapply scores_eqb_functional; eassumption | exact F]. }
  apply scores_eqb_pairs in H as [A B].
  destruct (lookup c d1) as [q1|] eqn:E1; destruct (lookup c d2) as [q2|] eqn:E2; cbn [opt_Qeq].
  - apply lookup_Some_In in E1. apply lookup_Some_In in E2.
    destruct (A c q1 E1) as [w [Hw E]]. rewrite E. exact (F2 c w q2 Hw E2).
  - apply lookup_Some_In in E1. destruct (A c q1 E1) as [w [Hw _]].
    exact (proj1 (lookup_None_iff c d2) E2 w Hw).
  - apply lookup_Some_In in E2. destruct (B c q2 E2) as [w [Hw _]].
    exact (proj1 (lookup_None_iff c d1) E1 w Hw).
  - exact I.
Qed.

Lemma lookup_half (d1 d2 : scores) :
  functional d1 -> (forall c, opt_Qeq (lookup c d1) (lookup c d2)) ->
  forall c v, In (c, v) d1 -> exists v', In (c, v') d2 /\ v == v'.
Proof.
  intros F H c v Hin. destruct (functional_lookup d1 c v F Hin) as [q [E Eq]].
  specialize (H c). rewrite E in H. destruct (lookup c d2) as [q2|] eqn:E2; cbn [opt_Qeq] in H; [|destruct H].
  exists q2. split; [apply lookup_Some_In; exact E2|]. rewrite <- Eq. exact H.
Qed.

Lemma opt_Qeq_sym a b : opt_Qeq a b -> opt_Qeq b a.
Proof. destruct a, b; cbn [opt_Qeq]; intro H; try exact H. symmetry. exact H. Qed.

Lemma scores_eqb_lookup (d1 d2 : scores) :
  functional d1 -> functional d2 ->
  (scores_eqb d1 d2 = true <-> forall c, opt_Qeq (lookup c d1) (lookup c d2)).
Proof.
  intros F1 F2. split.
  - apply scores_eqb_lookup_fwd. left. exact F1.
  - intro H. apply scores_eqb_pairs. split.
    + apply lookup_half; assumption.
    + apply lookup_half; [exact F2|]. intro c. apply opt_Qeq_sym. apply H.
Qed.

Lemma opt_Qeq_lookup0 c (d1 d2 : scores) :
  opt_Qeq (lookup c d1) (lookup c d2) -> lookup0 c d1 == lookup0 c d2.
Proof.
  unfold Core.lookup0. destruct (lookup c d1), (lookup c d2); cbn [opt_Qeq]; intro H;
    try exact H; try destruct H. reflexivity.
Qed.

Lemma scores_eqb_lookup0 (d1 d2 : scores) :
  functional d1 -> functional d2 ->
  Forall (fun p => ~ snd p == 0) d1 -> Forall (fun p => ~ snd p == 0) d2 ->
  (scores_eqb d1 d2 = true <-> forall c, lookup0 c d1 == lookup0 c d2).
Proof.
  intros F1 F2 N1 N2. rewrite (scores_eqb_lookup d1 d2 F1 F2). split.
  - intros H c. apply opt_Qeq_lookup0. apply H.
  - intros H c. specialize (H c). unfold Core.lookup0 in H.
    rewrite Forall_forall in N1, N2.
    destruct (lookup c d1) as [q1|] eqn:E1; destruct (lookup c d2) as [q2|] eqn:E2; cbn [opt_Qeq].
    + exact H.
    + apply lookup_Some_In in E1. exact (N1 _ E1 H).
    + apply lookup_Some_In in E2. apply (N2 _ E2). cbn [snd]. symmetry. exact H.
    + exact I.
Qed.

(* the general direction: equal score lists give equal lookup0 for functional lists *)
Lemma scores_eqb_lookup0_fwd (d1 d2 : scores) :
  functional d1 \/ functional d2 ->
  scores_eqb d1 d2 = true -> forall c, lookup0 c d1 == lookup0 c d2.
Proof. intros F H c. apply opt_Qeq_lookup0. apply scores_eqb_lookup_fwd; assumption. Qed.

(* ================= 3. derived fields ================= *)
Lemma fields_definitional (p : profile) :
  num_ballots p = length (ballots p) /\
  total_ballot_wt p == qsum (map wt (ballots p)) /\
  NoDup (candidates_cast p) /\
  (forall c, In c (candidates_cast p) <->
     exists b, In b (ballots p) /\ 0 < wt b /\
               ((exists g, In g (rk b) /\ In c g) \/ (exists s, In (c, s) (sc b)))).
Proof.
  unfold FieldsSpec.num_ballots, FieldsSpec.total_ballot_wt, FieldsSpec.candidates_cast.
  split; [reflexivity|]. split; [reflexivity|].
  split; [apply (cast_cands_NoDup cand ceqb ceqb_spec)|].
  intro c. apply (cast_cands_In cand ceqb ceqb_spec).
Qed.

(* ballots of weight <= 0 are invisible to candidates_cast (literally) *)
Lemma cast_cands_filter_pos (bs : list ballot) :
  cast_cands bs = cast_cands (filter (Core.pos_wt cand) bs).
Proof.
  unfold Core.cast_cands. f_equal.
  induction bs as [|b bs IH]; [reflexivity|].
  cbn [map concat filter]. unfold Core.pos_wt at 1.
  destruct (Qlt_bool 0 (wt b)) eqn:E.
  - cbn [map concat]. rewrite E, IH. reflexivity.
  - cbn [app]. exact IH.
Qed.

Lemma cast_cands_app (bs bs' : list ballot) c :
  In c (cast_cands (bs ++ bs')) <-> In c (cast_cands bs) \/ In c (cast_cands bs').
Proof.
  rewrite !(cast_cands_In cand ceqb ceqb_spec). split.
  - intros [b [Hb H]]. apply in_app_or in Hb as [Hb|Hb]; [left|right]; exists b; split; assumption.
  - intros [[b [Hb H]]|[b [Hb H]]]; exists b; (split; [apply in_or_app|exact H]); [left|right]; exact Hb.
Qed.

Lemma cast_cands_perm (bs bs' : list ballot) c :
  Permutation bs bs' -> (In c (cast_cands bs) <-> In c (cast_cands bs')).
Proof.
  intro P. rewrite !(cast_cands_In cand ceqb ceqb_spec).
  split; intros [b [Hb H]]; exists b; (split; [|exact H]).
  - eapply Permutation_in; eassumption.
  - eapply Permutation_in; [apply Permutation_sym; exact P | exact Hb].
Qed.

(* the stored field [cands] of every profile made by the constructor *)
Lemma mk_profile_fields bs cs p :
  mk_profile bs cs = inl p ->
  ballots p = bs /\
  num_ballots p = length bs /\
  total_ballot_wt p == qsum (map wt bs) /\
  candidates_cast p = cast_cands bs /\
  NoDup (cands p) /\
  (cs <> [] -> cands p = cs) /\
  (cs = [] -> cands p = candidates_cast p) /\
  (forall c, In c (cands p) <->
     In c cs \/ (cs = [] /\ exists b, In b bs /\ 0 < wt b /\
                   ((exists g, In g (rk b) /\ In c g) \/ (exists s, In (c, s) (sc b))))).
Proof.
  intro H. destruct (mk_profile_ok cand ceqb ceqb_spec bs cs p H) as [B [C1 [C2 ND]]].
  unfold FieldsSpec.num_ballots, FieldsSpec.total_ballot_wt, FieldsSpec.candidates_cast.
  rewrite B. split; [reflexivity|]. split; [reflexivity|]. split; [reflexivity|].
  split; [reflexivity|].
  destruct cs as [|c0 cs].
  - rewrite (C2 eq_refl). split; [apply (cast_cands_NoDup cand ceqb ceqb_spec)|].
    split; [intro K; contradiction K; reflexivity|]. split; [reflexivity|].
    intro c. rewrite (cast_cands_In cand ceqb ceqb_spec). split.
    + intro K. right. split; [reflexivity | exact K].
    + intros [[]|[_ K]]. exact K.
  - assert (c0 :: cs <> []) as NE by discriminate. rewrite (C1 NE).
    split; [exact ND|]. split; [reflexivity|]. split; [discriminate|].
    intro c. split; [intro K; left; exact K|]. intros [K|[K _]]; [exact K | discriminate K].
Qed.

Lemma profile_add_fields p q r :
  profile_add p q = inl r ->
  num_ballots r = (num_ballots p + num_ballots q)%nat /\
  total_ballot_wt r == total_ballot_wt p + total_ballot_wt q /\
  cands r = candidates_cast r /\
  NoDup (cands r) /\
  (forall c, In c (candidates_cast r) <-> In c (candidates_cast p) \/ In c (candidates_cast q)).
Proof.
  rewrite (profile_add_total cand ceqb). intro H. injection H as <-.
  unfold FieldsSpec.num_ballots, FieldsSpec.total_ballot_wt, FieldsSpec.candidates_cast.
  cbn [ballots cands]. split; [apply app_length|]. split; [apply (total_wt_app cand)|].
  split; [reflexivity|]. split; [apply (cast_cands_NoDup cand ceqb ceqb_spec)|].
  intro c. apply cast_cands_app.
Qed.

(* ================= candidates_cast under condensing ================= *)
Lemma same_mentions (a b : ballot) c : same a b = true -> (mentions a c <-> mentions b c).
Proof.
  intro S. apply (same_iff cand ceqb) in S as [R Sc].
  apply ranking_eqb_spec in R. pose proof (scores_eqb_keys _ _ Sc c) as K.
  unfold FieldsSpec.mentions_cand.
  assert ((exists g, In g (rk a) /\ In c g) <-> (exists g, In g (rk b) /\ In c g)) as RR.
  { clear K Sc. induction R as [|s1 s2 r1 r2 Hs R IH].
    - split; intros [g [[] _]].
    - split; intros [g [[<-|Hg] Hc]].
      + exists s2. split; [left; reflexivity | apply Hs; exact Hc].
      + destruct (proj1 IH (ex_intro _ g (conj Hg Hc))) as [g' [Hg' Hc']].
        exists g'. split; [right; exact Hg' | exact Hc'].
      + exists s1. split; [left; reflexivity | apply Hs; exact Hc].
      + destruct (proj2 IH (ex_intro _ g (conj Hg Hc))) as [g' [Hg' Hc']].
        exists g'. split; [right; exact Hg' | exact Hc']. }
  assert (forall d : scores, (exists s, In (c, s) d) <-> In c (map fst d)) as KK.
  { intro d. rewrite in_map_iff. split.
    - intros [s Hs]. exists (c, s). split; [reflexivity | exact Hs].
    - intros [[c' s] [E Hs]]. cbn [fst] in E. subst c'. exists s. exact Hs. }
  rewrite RR, !KK, K. reflexivity.
Qed.

Lemma wtof_nonneg k (l : list ballot) : (forall b, In b l -> 0 <= wt b) -> 0 <= wtof k l.
Proof.
  intro P. unfold Content.wtof. apply qsum_pos_nonneg. intros x Hx.
  apply in_map_iff in Hx as [b [<- Hb]]. apply filter_In in Hb as [Hb _]. apply P. exact Hb.
Qed.

Lemma wtof_ge k (l : list ballot) b :
  (forall x, In x l -> 0 <= wt x) -> In b l -> same k b = true -> wt b <= wtof k l.
Proof.
  induction l as [|x l IH]; intros P Hb S; [destruct Hb|].
  rewrite (wtof_cons cand ceqb).
  assert (0 <= wtof k l) as NN by (apply wtof_nonneg; intros y Hy; apply P; right; exact Hy).
  destruct Hb as [<-|Hb].
  - rewrite S. rewrite <- (Qplus_0_r (wt x)) at 1. apply Qplus_le_compat; [apply Qle_refl | exact NN].
  - assert (wt b <= wtof k l) as Le by (apply IH; [intros y Hy; apply P; right; exact Hy | exact Hb | exact S]).
    destruct (same k x).
    + rewrite <- (Qplus_0_l (wt b)). apply Qplus_le_compat; [apply P; left; reflexivity | exact Le].
    + exact Le.
Qed.

Lemma wtof_pos_ex k (l : list ballot) :
  (forall x, In x l -> 0 <= wt x) -> 0 < wtof k l -> exists b, In b l /\ same k b = true /\ 0 < wt b.
Proof.
  induction l as [|x l IH]; intros P H.
  - exfalso. exact (Qlt_irrefl 0 H).
  - rewrite (wtof_cons cand ceqb) in H.
    assert (forall y, In y l -> 0 <= wt y) as P' by (intros y Hy; apply P; right; exact Hy).
    destruct (same k x) eqn:E.
    + destruct (Qlt_le_dec 0 (wt x)) as [Px|Nx].
      * exists x. split; [left; reflexivity | split; assumption].
      * assert (wt x == 0) as Z by (apply Qle_antisym; [exact Nx | apply P; left; reflexivity]).
        rewrite Z, Qplus_0_l in H. destruct (IH P' H) as [b [Hb Hs]].
        exists b. split; [right; exact Hb | exact Hs].
    + destruct (IH P' H) as [b [Hb Hs]]. exists b. split; [right; exact Hb | exact Hs].
Qed.

Lemma condense_cast (bs : list ballot) :
  (forall b, In b bs -> 0 <= wt b) ->
  forall c, In c (cast_cands (condense_bs bs)) <-> In c (cast_cands bs).
Proof.
  intros P c. rewrite !(cast_cands_In cand ceqb ceqb_spec). split.
  - intros [k [Hk [W M]]].
    assert (wtof k bs == wt k) as Wk.
    { rewrite <- (condense_weights cand ceqb ceqb_spec k bs).
      apply (distinct_wtof cand ceqb ceqb_spec _ (condense_distinct cand ceqb bs) k k Hk).
      apply (same_refl cand ceqb ceqb_spec). }
    rewrite <- Wk in W. destruct (wtof_pos_ex k bs P W) as [b [Hb [S Pb]]].
    exists b. split; [exact Hb|]. split; [exact Pb|].
    apply (same_mentions k b c S). exact M.
  - intros [b [Hb [W M]]].
    destruct (condense_covers cand ceqb ceqb_spec bs b Hb) as [k [Hk S]].
    exists k. split; [exact Hk|]. split.
    + assert (wtof k bs == wt k) as Wk.
      { rewrite <- (condense_weights cand ceqb ceqb_spec k bs).
        apply (distinct_wtof cand ceqb ceqb_spec _ (condense_distinct cand ceqb bs) k k Hk).
        apply (same_refl cand ceqb ceqb_spec). }
      rewrite <- Wk. eapply Qlt_le_trans; [exact W|]. apply wtof_ge; assumption.
    + apply (same_mentions k b c S). exact M.
Qed.

Lemma condense_profile_cast (p : profile) :
  (forall b, In b (ballots p) -> 0 <= wt b) ->
  forall c, In c (candidates_cast (condense p)) <-> In c (candidates_cast p).
Proof.
  unfold FieldsSpec.candidates_cast, Core.condense. cbn [ballots]. apply condense_cast.
Qed.

(* ---------- packaged statements for Properties/C11_fields.v ---------- *)
Lemma condense_count bs :
  (length (condense_bs bs) <= length bs)%nat /\ (bs <> [] -> condense_bs bs <> []).
Proof. exact (conj (condense_length bs) (condense_nonempty bs)). Qed.

Lemma scores_eqb_lookup_fwd_full (d1 d2 : scores) :
  functional d1 \/ functional d2 ->
  scores_eqb d1 d2 = true ->
  (functional d1 /\ functional d2) /\
  (forall c, opt_Qeq (lookup c d1) (lookup c d2)) /\
  (forall c, lookup0 c d1 == lookup0 c d2).
Proof.
  intros F H. split; [|split].
  - destruct F as [F|F]; split; try exact F.
    + exact (scores_eqb_functional d1 d2 H F).
    + rewrite (Lib_content.scores_eqb_sym cand ceqb) in H.
      exact (scores_eqb_functional d2 d1 H F).
  - exact (scores_eqb_lookup_fwd d1 d2 F H).
  - exact (scores_eqb_lookup0_fwd d1 d2 F H).
Qed.

Lemma cast_order_indep (bs bs' : list ballot) c :
  (Permutation bs bs' -> (In c (cast_cands bs) <-> In c (cast_cands bs'))) /\
  (In c (cast_cands (bs ++ bs')) <-> In c (cast_cands bs) \/ In c (cast_cands bs')).
Proof. exact (conj (cast_cands_perm bs bs' c) (cast_cands_app bs bs' c)). Qed.

End C11Fields.

(* a negative weight can cancel a content: its candidates then leave candidates_cast *)
Lemma condense_cast_negative_example :
  cast_cands positive Pos.eqb
    [mkBallot [[1%positive]] 1 [] None None; mkBallot [[1%positive]] (-1) [] None None] = [1%positive] /\
  cast_cands positive Pos.eqb
    (condense_bs positive Pos.eqb
       [mkBallot [[1%positive]] 1 [] None None; mkBallot [[1%positive]] (-1) [] None None]) = [].
Proof. split; vm_compute; reflexivity. Qed.
