(* Proofs/C10_stv2.v — C10 for the STV family, every transfer rule (the random one included), with
   the profile of the trace in place of "some profile": a tiebreak recorded in a round of a run
   is a genuine tie of the current profile of the trace, resolved by the configured tiebreak on
   THAT profile (one-by-one election) or by the first_place tiebreak on the initial profile
   (elimination); a first_place / borda resolution orders by that score and draws only inside the
   groups still tied on it ([stv_tie], Spec/STVRunSpec.v).
   Route: [stv_step_ok_inv] (Proofs/STV_round.v) — whose records keep the [tiebreak_set] call —
   under the round context provided along the trace by Proofs/C02_run.v; the C10 facts on
   [tiebreak_set] (Proofs/Elect.v, C10_tiebreak.v) give the resolution. *)
From Coq Require Import List ZArith QArith Bool Permutation Lia Lqa.
From VK Require Import Base Core STV Rules EditSpec.
From VK.Spec Require Import STVSpec ScoreSpec TieSpec ReplaySpec STVRunSpec.
From VK.Proofs Require Import Lib_sets Elect C10_quiet C10_tiebreak C10_closed C09_replay
  STV_lib STV_tb STV_step STV_round STV_weights STV_inv STV_cases C02_run.
Import ListNotations.

Section Ties.
Variable cand : Type.
Variable ceqb : cand -> cand -> bool.
Hypothesis ceqb_spec : forall a b, reflect (a = b) (ceqb a b).

Notation cset := (cset cand).
Notation ranking := (ranking cand).
Notation profile := (profile cand).
Notation scores := (scores cand).
Notation estate := (estate cand).
Notation mstate := (mstate cand).
Notation flat := (flat cand).
Notation singletons := (singletons cand).
Notation tally := (tally cand ceqb).
Notation wf_stv0 := (wf_stv0 cand).
Notation step_ctx := (step_ctx cand ceqb).
Notation script_ok := (script_ok cand).
Notation scr_suffix := (scr_suffix cand).
Notation stv_trace := (stv_trace cand ceqb).
Notation stv_init := (stv_init cand).
Notation stv_step := (stv_step cand ceqb).
Notation run_stv := (run_stv cand ceqb).
Notation tiebreak_set := (tiebreak_set cand ceqb).
Notation first_place_votes := (first_place_votes cand ceqb).
Notation borda_scores := (borda_scores cand ceqb).
Notation transfers := (transfers cand ceqb).
Notation tied_at := (tied_at cand).
Notation scored_resolution := (scored_resolution cand ceqb).
Notation random_resolution := (random_resolution cand).
Notation resolution := (resolution cand ceqb).
Notation stv_tie := (stv_tie cand ceqb).
Notation big := (big cand).

(* a deterministic transfer leaves the random source alone *)
Lemma transfers_quiet : forall k (p : profile) d t ws (s s' : mstate) mvs,
  transfers k p d t ws s mvs s' -> k <> TRandom -> s' = s.
Proof.
  intros k p d t ws s s' mvs H Hk. induction H as [s|w ws s a s1 mvs s2 Hw Hd _ IH]; [reflexivity|].
  rewrite IH. exact (do_transfer_quiet cand ceqb k w _ _ t s s1 a Hk Hd).
Qed.

(* ---------- one round ---------- *)

Theorem step_tie : forall cfg t (p0 p : profile) prev n (s s' : mstate) np st g tt,
  step_ctx p0 p prev -> (s_transfer cfg = TRandom -> script_ok s) ->
  stv_step cfg t p0 n p prev s = inl ((np, st), s') ->
  In (g, tt) (tiebreaks st) ->
  stv_tie cfg t p0 p prev st s s' g tt.
Proof.
  intros cfg t p0 p prev n s s' np st g tt Hctx Hscr Hstep Hin.
  pose proof (ctx_wf cand ceqb p0 p prev Hctx) as Hwf.
  assert (Hgroup : forall g0, In g0 (remaining prev) -> NoDup g0 /\ incl g0 (cands p)).
  { intros g0 Hg0. split.
    - apply (NoDup_concat_member cand (remaining prev) g0); [|exact Hg0].
      apply (ctx_flat_nd cand ceqb p0 p prev Hctx).
    - intros c Hc. apply (ctx_group_in cand ceqb p0 p prev Hctx g0 c Hg0 Hc). }
  assert (Htied : forall g0 w, In g0 (remaining prev) -> In w g0 ->
            tied_at (escores prev) g0 (tally w (ballots p))).
  { intros g0 w Hg0 Hw c Hc.
    destruct (ctx_score cand ceqb ceqb_spec p0 p prev Hctx c (proj2 (Hgroup g0 Hg0) c Hc)) as [Hi Hq].
    exists (lookup0 cand ceqb c (escores prev)). split; [exact Hi|]. rewrite Hq.
    apply (ctx_same_group cand ceqb ceqb_spec p0 p prev Hctx g0 c w Hg0 Hc Hw). }
  destruct (stv_step_ok_inv cand ceqb ceqb_spec cfg t p0 p prev Hctx n s s' np st Hscr Hstep)
    as [[_ (W & others & mvs & s1 & Hr)]|[(_ & _ & _ & Hd)|(Hnone & _ & x & Hx)]].
  - (* election *)
    destruct Hr as [HrW _ _ _ _ HrReach HrElim HrChoice HrSuf HrTr _ _ _ _].
    destruct HrChoice as [(_ & _ & Htb & _)|(Hsim & w & g0 & rest & Hrem & Hwg & Hel & Hcase)].
    { rewrite Htb in Hin. destruct Hin. }
    destruct Hcase as [(_ & Htb & _)|(Hlen & kind & l & Hk & Htb & Hperm & Htie & _)].
    { rewrite Htb in Hin. destruct Hin. }
    rewrite Htb in Hin. destruct Hin as [Heq|[]]. injection Heq as <- <-.
    assert (Hg0 : In g0 (remaining prev)) by (rewrite Hrem; left; reflexivity).
    destruct (Hgroup g0 Hg0) as [Hnd Hincl].
    destruct (first_group_tied cand ceqb ceqb_spec p0 p prev Hctx g0 rest w Hrem Hwg) as [Hmax Htw].
    assert (HW : W = [w]) by (rewrite <- HrW, Hel; reflexivity).
    split; [exact Htb|]. split; [exact Hlen|]. split; [exact Hnd|]. split; [exact Hincl|].
    split; [apply (ctx_sub cand ceqb p0 p prev Hctx)|].
    exists (tally w (ballots p)). split; [apply Htied; assumption|]. split; [exact Htw|].
    left. exists rest, kind, s1, (w :: l).
    split; [exact Hsim|]. split; [exact Hk|]. split; [exact Hrem|].
    split; [apply HrReach; rewrite HW; left; reflexivity|]. split; [apply Hmax|].
    split; [exact Htie|]. split; [apply (resolution_of cand ceqb ceqb_spec kind p g0 _ s s1 Hwf Htie)|].
    assert (Hscr1 : s_transfer cfg = TRandom -> script_ok s1).
    { intros E. apply (script_ok_suffix cand s s1 HrSuf). apply Hscr. exact E. }
    split; [apply (transfers_wf cand ceqb ceqb_spec _ p _ t W s1 s' mvs HrTr Hwf Hscr1)|].
    split; [intros Hk'; symmetry; apply (transfers_quiet _ _ _ _ _ _ _ _ HrTr Hk')|].
    split; [reflexivity|]. split; [exact Hperm|].
    split; [eapply Permutation_NoDup; [apply Permutation_sym; exact Hperm|exact Hnd]|].
    split; [rewrite Hel; reflexivity|exact HrElim].
  - (* default election *)
    destruct Hd as [_ _ _ Htb _ _ _]. rewrite Htb in Hin. destruct Hin.
  - (* elimination *)
    destruct Hx as [_ (pre & low & Hrem & Hxl & Hcase) _ HxEl HxElim _ _ _ _].
    destruct Hcase as [(_ & Htb & _)|(Hlen & l & Htb & Hperm & Htie)].
    { rewrite Htb in Hin. destruct Hin. }
    rewrite Htb in Hin. destruct Hin as [Heq|[]]. injection Heq as <- <-.
    assert (Hg0 : In low (remaining prev)) by (rewrite Hrem; apply in_or_app; right; left; reflexivity).
    destruct (Hgroup low Hg0) as [Hnd Hincl].
    destruct (last_group_tied cand ceqb ceqb_spec p0 p prev Hctx pre low x Hrem Hxl) as [Hmin Htw].
    pose proof (ctx_p0 cand ceqb p0 p prev Hctx) as Hwf0.
    split; [exact Htb|]. split; [exact Hlen|]. split; [exact Hnd|]. split; [exact Hincl|].
    split; [apply (ctx_sub cand ceqb p0 p prev Hctx)|].
    exists (tally x (ballots p)). split; [apply Htied; assumption|]. split; [exact Htw|].
    right. exists (rev pre), x, l.
    split; [exact Hnone|]. split; [rewrite Hrem, rev_app_distr; reflexivity|].
    split; [apply Hmin|]. split; [exact Htie|].
    split; [apply (resolution_of cand ceqb ceqb_spec TBFirstPlace p0 low _ s s' Hwf0 Htie)|].
    split; [reflexivity|]. split; [exact Hperm|].
    split; [eapply Permutation_NoDup; [apply Permutation_sym; exact Hperm|exact Hnd]|].
    split; [exact HxElim|exact HxEl].
Qed.

(* ---------- observation: a first_place tiebreak cannot separate an STV election tie ---------- *)

(* candidates tied on the first-place votes of q: the first_place tiebreak on q draws one
   permutation of the whole set — it is the random tiebreak *)
Theorem fpv_tiebreak_on_tied : forall (q : profile) g tt (sa s1 : mstate) (d : scores) k,
  first_place_votes q = inl d -> NoDup (map fst d) -> NoDup g -> (2 <= length g)%nat ->
  incl g (map fst d) -> tied_at d g k ->
  tiebreak_set g (Some q) TBFirstPlace sa = inl (tt, s1) ->
  random_resolution g tt sa s1.
Proof.
  intros q g tt sa s1 d k Hd Hndk Hnd Hlen Hincl Htied H.
  assert (Hgne : g <> []) by (intros E; rewrite E in Hlen; cbn in Hlen; lia).
  destruct (c10_scored_trace_proof cand ceqb ceqb_spec g q TBFirstPlace d sa s1 tt
              (or_introl (conj eq_refl Hd)) H) as [ls [Hscr [_ [HF Htt]]]].
  destruct (c10_scored_groups_proof cand ceqb ceqb_spec g d Hndk Hnd Hgne Hincl)
    as [Hperm [Hne [_ Hord]]].
  cbv zeta in Hscr, HF, Htt, Hperm, Hne, Hord.
  set (r := score_to_ranking cand (filter (fun x => memb cand ceqb (fst x) g) d) true) in *.
  assert (Hin : forall g0 c, In g0 r -> In c g0 -> In c g).
  { intros g0 c Hg0 Hc. eapply Permutation_in; [exact Hperm|]. unfold Core.flat.
    apply in_concat. exists g0. split; assumption. }
  destruct r as [|g1 [|g2 r']] eqn:Er.
  - exfalso. apply Hgne. apply Permutation_nil. exact Hperm.
  - unfold Core.flat in Hperm. cbn [concat] in Hperm. rewrite app_nil_r in Hperm.
    assert (Hbig : big g1 = true).
    { unfold TieSpec.big. apply Nat.ltb_lt. rewrite (Permutation_length Hperm). lia. }
    cbn [filter] in HF. rewrite Hbig in HF.
    inversion HF as [|l sg ls' sgs' [Hpl Hndl] HF']; subst. inversion HF'; subst.
    exists l. cbn [map app] in Hscr. split; [exact Hscr|].
    split; [cbn [TieSpec.rebuild]; rewrite Hbig; cbn [TieSpec.rebuild]; apply app_nil_r|].
    split; [eapply Permutation_trans; eassumption|exact Hndl].
  - exfalso.
    assert (H1 : g1 <> []) by (apply Hne; left; reflexivity).
    assert (H2 : g2 <> []) by (apply Hne; right; left; reflexivity).
    destruct g1 as [|c1 g1']; [contradiction H1; reflexivity|].
    destruct g2 as [|c2 g2']; [contradiction H2; reflexivity|].
    assert (Hc1 : In c1 g) by (apply (Hin (c1 :: g1')); [left; reflexivity|left; reflexivity]).
    assert (Hc2 : In c2 g) by (apply (Hin (c2 :: g2')); [right; left; reflexivity|left; reflexivity]).
    destruct (Htied c1 Hc1) as [q1 [Hq1 Hk1]]. destruct (Htied c2 Hc2) as [q2 [Hq2 Hk2]].
    pose proof (Hord [] (c1 :: g1') [] (c2 :: g2') r' c1 c2 q1 q2 eq_refl
                  (or_introl eq_refl) (or_introl eq_refl) Hq1 Hq2) as Hlt.
    lra.
Qed.

(* hence in a one-by-one election round configured with tiebreak = first_place the recorded order
   is one random permutation of the tied set *)
Theorem first_place_election_tie : forall cfg t (p0 p : profile) prev n (s s' : mstate) np st g tt,
  step_ctx p0 p prev -> (s_transfer cfg = TRandom -> script_ok s) ->
  stv_step cfg t p0 n p prev s = inl ((np, st), s') ->
  In (g, tt) (tiebreaks st) ->
  (exists c, reaches cand ceqb t p c) -> s_tiebreak cfg = Some TBFirstPlace ->
  exists s1, tiebreak_set g (Some p) TBFirstPlace s = inl (tt, s1) /\ random_resolution g tt s s1.
Proof.
  intros cfg t p0 p prev n s s' np st g tt Hctx Hscr Hstep Hin Hsome Hk.
  destruct (step_tie cfg t p0 p prev n s s' np st g tt Hctx Hscr Hstep Hin)
    as (_ & Hlen & Hnd & Hincl & _ & k & Htied & _ & Hcase).
  destruct Hcase as [(post & kind & s1 & l & _ & Hk' & _ & _ & _ & Htie & _)|(rest & x & l' & Hnone & _)].
  - rewrite Hk in Hk'. injection Hk' as <-. exists s1. split; [exact Htie|].
    apply (fpv_tiebreak_on_tied p g tt s s1 (escores prev) k
             (ctx_fpv cand ceqb p0 p prev Hctx) (ctx_nd_keys cand ceqb p0 p prev Hctx) Hnd Hlen);
      [|exact Htied|exact Htie].
    rewrite (ctx_keys cand ceqb p0 p prev Hctx). exact Hincl.
  - exfalso. destruct Hsome as (c & Hc & Hct). apply (Qlt_not_le _ _ (Hnone c Hc)). exact Hct.
Qed.

(* ---------- the run ---------- *)

Theorem run_ties : forall cfg (p : profile) (s s' : mstate) sts,
  wf_stv0 p -> (s_transfer cfg = TRandom -> script_ok s) ->
  run_stv cfg p s = inl (sts, s') ->
  exists t ps ss,
    stv_init cfg p = inl t /\ stv_trace cfg t p sts ps ss /\
    nth_error ps 0 = Some p /\ nth_error ss 0 = Some s /\ last ss s = s' /\
    (forall st0, nth_error sts 0 = Some st0 -> tiebreaks st0 = []) /\
    forall r pr prev st sa sb g tt,
      nth_error ps r = Some pr -> nth_error sts r = Some prev -> nth_error ss r = Some sa ->
      nth_error sts (S r) = Some st -> nth_error ss (S r) = Some sb ->
      In (g, tt) (tiebreaks st) ->
      stv_tie cfg t p pr prev st sa sb g tt.
Proof.
  intros cfg p s s' sts Hwf Hscr H.
  destruct (run_trace_inv cand ceqb ceqb_spec cfg p s s' sts Hwf Hscr H)
    as [t [ps [ss [s0 [Ht [Htr [Hp0 [Hs0 [Hlast [H0 [Hst0 Hall]]]]]]]]]]].
  exists t, ps, ss. split; [exact Ht|]. split; [exact Htr|]. split; [exact Hp0|].
  split; [exact Hs0|]. split; [exact Hlast|]. split.
  { intros st0 E. rewrite Hst0 in E. injection E as <-.
    exact (initial_state_no_tiebreak cand ceqb p s0 H0). }
  pose proof Htr as [Hlp [Hls [Hso Hstep]]].
  intros r pr prev st sa sb g tt Hp Hr Hsa Hr' Hsb Hin.
  pose proof (nth_error_lt _ _ _ Hr') as Hlt.
  destruct (nth_error_ex ps (S r) ltac:(lia)) as [pr' Hp'].
  destruct (Hall r pr prev sa Hp Hr Hsa) as [_ [Hctx Hscra]].
  pose proof (Hstep r pr prev sa pr' st sb Hp Hr Hsa Hp' Hr' Hsb) as Hs.
  exact (step_tie cfg t p pr prev _ sa sb pr' st g tt Hctx Hscra Hs Hin).
Qed.

End Ties.
