(* Proofs/C01_hare_alaska.v — C01 for Alaska (Plurality(m1) then STV(m2)) with EVERY quota and
   EVERY transfer rule of the STV stage: the list of the exceptions, and termination.  Extends
   alaska_errors / alaska_no_fuel of Proofs/C01_composite.v (Droop quota, quota-preserving transfer)
   with the error list of Proofs/C01_hare.v. *)
From VK Require Import Base Core STV Pairwise Rules PV Election.
From VK.Spec Require Import ScoreSpec EditSpec RatingSpec TopMSpec STVSpec Anon TieSpec RunSpec STVErrSpec.
From VK.Proofs Require Import Lib_sets C04_scoring Elect C11_profile C12_edit C20_validation C05_rating
  C13_composite STV_lib STV_tb STV_round STV_threshold STV_inv C08_anon C10_script C01_lib C01_rules C01_nofuel
  C01_composite C01_hare_lib C01_hare.
From Coq Require Import Permutation Lia Lqa.

Section Alaska.
Variable cand : Type.
Variable ceqb : cand -> cand -> bool.
Hypothesis ceqb_spec : forall a b, reflect (a = b) (ceqb a b).

Notation profile := (profile cand).
Notation estate := (estate cand).
Notation mstate := (mstate cand).
Notation total_wt := (total_wt cand).
Notation wf_stv0 := (wf_stv0 cand).
Notation script_ok := (script_ok cand).
Notation no_tiebreak := (no_tiebreak cand).
Notation plurality_stage := (plurality_stage cand ceqb).
Notation run_alaska := (run_alaska cand ceqb).
Notation run_stv := (run_stv cand ceqb).
Notation stv_init := (stv_init cand).
Notation stv_replay := (stv_replay cand ceqb).

Theorem alaska_errors_all : forall m1 m2 cfg (p : profile) s e,
  wf_stv0 p -> (s_transfer cfg = TRandom -> script_ok s) ->
  run_alaska m1 m2 cfg p s = inr e ->
  e = EValue \/ e = EScript \/ (s_transfer cfg = TRandom /\ e = EType) \/
  (* the STV stage divides by zero / over-elects: exactly as for STV alone, on the profile p1 of
     the survivors of the plurality stage *)
  (exists s0 p1 s1 sa,
     plurality_stage m1 (s_tiebreak cfg) p s0 s = inl ((p1, s1), sa) /\
     run_stv (with_m cfg m2) p1 sa = inr e /\
     ((e = EZeroDiv /\ s_transfer cfg = TFractional /\ s_quota cfg = QHare /\
       total_wt (ballots p1) < inject_Z m2) \/
      (e = EIndex /\ s_simul cfg = true /\
       (s_transfer cfg = TFullWeight \/
        (s_quota cfg = QHare /\
         inject_Z (m2 + 1) * inject_Z (hare_quota (total_wt (ballots p1)) m2) <= total_wt (ballots p1)))))) \/
  (* the error was raised by the get_profile replay of an STV stage that had succeeded but had
     recorded a tiebreak (or used the random transfer) *)
  (exists s0 p1 s1 sa ssts sb t,
     plurality_stage m1 (s_tiebreak cfg) p s0 s = inl ((p1, s1), sa) /\
     run_stv (with_m cfg m2) p1 sa = inl (ssts, sb) /\ stv_init (with_m cfg m2) p1 = inl t /\
     stv_replay (with_m cfg m2) t p1 [] p1 (removelast ssts) sb = inr e /\
     (s_transfer cfg = TRandom \/ ~ Forall no_tiebreak ssts)).
Proof.
  intros m1 m2 cfg p s e Hwf Hscr H.
  pose proof (wf_stv0_ranked cand p Hwf) as Hr.
  unfold Rules.run_alaska in H. rewrite mbind_mlift in H.
  destruct (alaska_args m1 m2) as [[]|e0] eqn:Ha.
  2:{ inversion H; subst e0. left. exact (proj1 (proj2 (alaska_args_iff m1 m2)) e Ha). }
  rewrite mbind_mlift, (wf_profile_ranking_validate cand p (proj1 Hr)) in H.
  destruct (ranked_fpv cand ceqb ceqb_spec p (proj1 Hr)) as [d0 Hd0].
  unfold Rules.round0 in H. cbn [Rules.score_fn] in H. rewrite Hd0 in H. cbn [rbind] in H.
  rewrite mbind_mlift in H. unfold ok in H. unfold mbind at 1 in H.
  destruct (plurality_stage m1 (s_tiebreak cfg) p _ s) as [[[p1 s1] sa]|e0] eqn:Hst.
  2:{ inversion H; subst e0. apply (plurality_stage_errors cand ceqb ceqb_spec) in Hst; [|exact Hr].
      destruct (plurality_error_kinds cand ceqb ceqb_spec _ _ _ _ _ Hr Hst) as [He|[He _]];
        [left; exact He|right; left; exact He]. }
  cbv zeta in H.
  assert (Hwf1 : wf_stv0 p1).
  { pose proof Hst as Hst'. apply (plurality_stage_iff cand ceqb) in Hst'.
    destruct Hst' as [q0 [q1 [d [_ [Hnp _]]]]].
    eapply (stage_profile_wf_stv cand ceqb ceqb_spec); eassumption. }
  assert (Hscr1 : s_transfer (with_m cfg m2) = TRandom -> script_ok sa).
  { intros E. eapply (stage_script_ok cand ceqb); [exact Hst|apply Hscr; exact E]. }
  rewrite mbind_mlift in H.
  destruct (stv_init (with_m cfg m2) p1) as [t|e0] eqn:Hinit.
  2:{ inversion H; subst e0.
      destruct (stv_init_err_gen cand _ _ _ Hwf1 Hinit) as [(He & Ht & _)|(He & _)].
      - right. right. left. split; [exact Ht|exact He].
      - left. exact He. }
  unfold mbind at 1 in H.
  destruct (run_stv (with_m cfg m2) p1 sa) as [[ssts sb]|e0] eqn:Hrun.
  2:{ inversion H; subst e0.
      destruct (run_error_list cand ceqb ceqb_spec (with_m cfg m2) p1 sa e Hwf1 Hscr1 Hrun)
        as [[He _]|[[He _]|[[He _]|[[He Hk]|[(He & Hk & Hq & HN)|[(He & Hsim & Hc)|He]]]]]];
        cbv zeta in *; cbn [with_m s_m s_quota s_simul s_transfer s_tiebreak] in *.
      - left. exact He.
      - left. exact He.
      - left. exact He.
      - right. right. left. split; [exact Hk|exact He].
      - right. right. right. left. eexists. exists p1, s1, sa. split; [exact Hst|]. split; [exact Hrun|].
        left. repeat split; assumption.
      - right. right. right. left. eexists. exists p1, s1, sa. split; [exact Hst|]. split; [exact Hrun|].
        right. split; [exact He|]. split; [exact Hsim|exact Hc].
      - right. left. exact He. }
  unfold mbind at 1 in H.
  destruct (stv_replay (with_m cfg m2) t p1 [] p1 (removelast ssts) sb) as [[pf sc]|e0] eqn:Hrep;
    [discriminate|].
  inversion H; subst e0. right. right. right. right.
  eexists. exists p1, s1, sa, ssts, sb, t. split; [exact Hst|]. split; [exact Hrun|].
  split; [exact Hinit|]. split; [exact Hrep|].
  destruct (s_transfer cfg) eqn:Etr.
  - right. intros Hquiet.
    assert (Hk2 : s_transfer (with_m cfg m2) <> TRandom) by (cbn [with_m s_transfer]; rewrite Etr; discriminate).
    destruct (alaska_replay_ok cand ceqb (with_m cfg m2) p1 sa ssts sb t Hk2 Hrun Hinit Hquiet sb) as [pf Hok].
    rewrite Hok in Hrep. discriminate.
  - left. reflexivity.
  - right. intros Hquiet.
    assert (Hk2 : s_transfer (with_m cfg m2) <> TRandom) by (cbn [with_m s_transfer]; rewrite Etr; discriminate).
    destruct (alaska_replay_ok cand ceqb (with_m cfg m2) p1 sa ssts sb t Hk2 Hrun Hinit Hquiet sb) as [pf Hok].
    rewrite Hok in Hrep. discriminate.
Qed.

(* Alaska terminates on valid input whatever the quota and the transfer rule *)
Theorem alaska_no_fuel_all : forall m1 m2 cfg (p : profile) s,
  wf_stv0 p -> (s_transfer cfg = TRandom -> script_ok s) ->
  run_alaska m1 m2 cfg p s <> inr EFuel.
Proof.
  intros m1 m2 cfg p s Hwf Hscr H.
  destruct (alaska_errors_all m1 m2 cfg p s EFuel Hwf Hscr H)
    as [He|[He|[[_ He]|[(s0 & p1 & s1 & sa & _ & _ & [[He _]|[He _]])
       |(s0 & p1 & s1 & sa & ssts & sb & t & _ & _ & _ & Hrep & _)]]]]; try discriminate.
  exact (stv_replay_no_fuel cand ceqb _ _ _ _ _ _ _ Hrep).
Qed.

End Alaska.
