(* Proofs/STV_step.v — one STV round ([stv_step]) taken apart: the four branches as equations,
   what each sub-call returns on a valid profile, and the two inversion theorems
   (what a successful round looks like; which errors a round can raise). *)
From VK Require Import Base Core STV EditSpec ScoreSpec STVSpec.
From VK.Proofs Require Import Lib_sets Lib_rk Lib_condense Lib_condense12 C12_edit C03_transfer
  C04_scoring Elect STV_lib STV_wsum STV_tb.
From Coq Require Import Permutation Lia Lqa Setoid Morphisms Sorting.Sorted.

Section WithCand.
Variable cand : Type.
Variable ceqb : cand -> cand -> bool.
Hypothesis ceqb_spec : forall a b, reflect (a = b) (ceqb a b).

Notation cset := (cset cand).
Notation ranking := (ranking cand).
Notation ballot := (ballot cand).
Notation profile := (profile cand).
Notation scores := (scores cand).
Notation mstate := (mstate cand).
Notation estate := (estate cand).
Notation M := (M cand).
Notation memb := (memb cand ceqb).
Notation subsetb := (subsetb cand ceqb).
Notation ranking_eqb := (ranking_eqb cand ceqb).
Notation flat := (flat cand).
Notation strip := (strip cand ceqb).
Notation set_diff := (set_diff cand ceqb).
Notation first_is := (first_is cand ceqb).
Notation pile := (pile cand ceqb).
Notation total_wt := (total_wt cand).
Notation tally := (tally cand ceqb).
Notation wf_stv_ballot := (wf_stv_ballot cand).
Notation wf_stv0 := (wf_stv0 cand).
Notation state_of := (state_of cand ceqb).
Notation lookup0 := (lookup0 cand ceqb).
Notation first_place_votes := (first_place_votes cand ceqb).
Notation score_to_ranking := (score_to_ranking cand).
Notation condense_bs := (condense_bs cand ceqb).
Notation remove_cand_bs := (remove_cand_bs cand ceqb).
Notation remove_cand_prof := (remove_cand_prof cand ceqb).
Notation mk_profile := (mk_profile cand ceqb).
Notation score_free := (score_free cand).
Notation all_pos := (all_pos cand).
Notation tiebreak_set := (tiebreak_set cand ceqb).
Notation elect_top_m := (elect_top_m cand ceqb).
Notation singletons := (singletons cand).
Notation do_transfer := (do_transfer cand ceqb).
Notation transfer_all := (transfer_all cand ceqb).
Notation quota_groups := (quota_groups cand ceqb).
Notation simultaneous_elect := (simultaneous_elect cand ceqb).
Notation single_elect := (single_elect cand ceqb).
Notation stv_step := (stv_step cand ceqb).
Notation state_of_scores := (state_of_scores cand).
Notation no_group := (no_group cand).
Notation empty_profile := (empty_profile cand).
Notation has_ranking := (has_ranking cand).
Notation scr_suffix := (scr_suffix cand).

Let memb_In := Lib_rk.memb_In cand ceqb ceqb_spec.
Let memb_false_iff := Lib_rk.memb_false_iff cand ceqb ceqb_spec.

(* ====================== the branches of a round, as equations ====================== *)

(* scores at or above the threshold *)
Definition above (t : Q) (d : scores) : scores := filter (fun q => Qle_bool t (snd q)) d.

(* choice of the candidate to eliminate from the lowest group *)
Definition pick_elim (p0 : profile) (lowest : cset) : M (cand * list (cset * ranking)) :=
  match lowest with
  | [] => mfail EIndex
  | [c] => mret (c, [])
  | _ => do! tb := tiebreak_set lowest (Some p0) TBFirstPlace in
         match rev tb with (c :: _) :: _ => mret (c, [(lowest, tb)]) | _ => mfail EIndex end
  end.

Lemma stv_step_default : forall cfg t p0 n p prev s,
  above t (escores prev) = [] ->
  Z.eqb (Z.of_nat (length (cands p))) (s_m cfg - n) = true ->
  stv_step cfg t p0 n p prev s =
  inl ((empty_profile, state_of_scores (rnd prev + 1) (remaining prev) no_group [] []), s).
Proof.
  intros cfg t p0 n p prev s Ha Hn. unfold STV.stv_step. unfold above in Ha. rewrite Ha, Hn.
  reflexivity.
Qed.

Lemma stv_step_elim : forall cfg t p0 n p prev s,
  above t (escores prev) = [] ->
  Z.eqb (Z.of_nat (length (cands p))) (s_m cfg - n) = false ->
  stv_step cfg t p0 n p prev s =
  match rev (remaining prev) with
  | [] => inr EIndex
  | lowest :: _ =>
    match pick_elim p0 lowest s with
    | inr e => inr e
    | inl ((x, tbs), s1) =>
      match remove_cand_prof [x] true false p with
      | inr e => inr e
      | inl np =>
        match first_place_votes np with
        | inr e => inr e
        | inl d' => inl ((np, state_of_scores (rnd prev + 1) no_group [[x]] tbs d'), s1)
        end
      end
    end
  end.
Proof.
  intros cfg t p0 n p prev s Ha Hn. unfold STV.stv_step. unfold above in Ha. rewrite Ha, Hn.
  unfold mbind at 1.
  destruct (rev (remaining prev)) as [|lowest rr]; [reflexivity|].
  unfold mbind at 1. fold (pick_elim p0 lowest).
  destruct (pick_elim p0 lowest s) as [[[x tbs] s1]|e]; [|reflexivity].
  unfold mbind, mlift, mret, ok.
  destruct (remove_cand_prof [x] true false p) as [np|e]; [|reflexivity].
  destruct (first_place_votes np) as [d'|e]; reflexivity.
Qed.

Lemma stv_step_simul : forall cfg t p0 n p prev s,
  above t (escores prev) <> [] -> s_simul cfg = true ->
  stv_step cfg t p0 n p prev s =
  match simultaneous_elect cfg t p prev s with
  | inr e => inr e
  | inl ((el, np), s1) =>
    match first_place_votes np with
    | inr e => inr e
    | inl d' => inl ((np, state_of_scores (rnd prev + 1) el no_group [] d'), s1)
    end
  end.
Proof.
  intros cfg t p0 n p prev s Ha Hs. unfold STV.stv_step. unfold above in Ha.
  destruct (filter (fun q : cand * Q => Qle_bool t (snd q)) (escores prev)) as [|a l];
    [contradiction Ha; reflexivity|].
  rewrite Hs. unfold mbind at 1. unfold mbind at 1.
  destruct (simultaneous_elect cfg t p prev s) as [[[el np] s1]|e]; [|reflexivity].
  unfold mbind, mlift, mret, ok.
  destruct (first_place_votes np) as [d'|e]; reflexivity.
Qed.

Lemma stv_step_single : forall cfg t p0 n p prev s,
  above t (escores prev) <> [] -> s_simul cfg = false ->
  stv_step cfg t p0 n p prev s =
  match single_elect cfg t p prev s with
  | inr e => inr e
  | inl ((el, tbs, np), s1) =>
    match first_place_votes np with
    | inr e => inr e
    | inl d' => inl ((np, state_of_scores (rnd prev + 1) el no_group tbs d'), s1)
    end
  end.
Proof.
  intros cfg t p0 n p prev s Ha Hs. unfold STV.stv_step. unfold above in Ha.
  destruct (filter (fun q : cand * Q => Qle_bool t (snd q)) (escores prev)) as [|a l];
    [contradiction Ha; reflexivity|].
  rewrite Hs. unfold mbind at 1. unfold mbind at 1.
  destruct (single_elect cfg t p prev s) as [[[[el tbs] np] s1]|e]; [|reflexivity].
  unfold mbind, mlift, mret, ok.
  destruct (first_place_votes np) as [d'|e]; reflexivity.
Qed.

(* ====================== structural facts on quota_groups ====================== *)

Lemma quota_groups_prefix : forall (r : ranking) d t, Forall (fun g => g <> []) r ->
  exists el rest, quota_groups r d t = inl el /\ r = el ++ rest /\
    Forall (fun g => exists c g', g = c :: g' /\ score_ge cand ceqb d t c = true) el /\
    (match rest with
     | [] => True
     | g :: _ => exists c g', g = c :: g' /\ score_ge cand ceqb d t c = false
     end).
Proof.
  intros r d t H. induction H as [|g r Hg _ IH].
  - exists [], []. repeat split. constructor.
  - destruct g as [|c g']; [contradiction Hg; reflexivity|]. cbn [STV.quota_groups].
    destruct (score_ge cand ceqb d t c) eqn:E.
    + destruct IH as (el & rest & Hq & Hr & Hel & Hrest). rewrite Hq. cbn [rbind].
      exists ((c :: g') :: el), rest. split; [reflexivity|]. split; [rewrite Hr; reflexivity|].
      split; [|exact Hrest]. constructor; [|exact Hel]. exists c, g'. split; [reflexivity|exact E].
    + exists [], ((c :: g') :: r). split; [reflexivity|]. split; [reflexivity|].
      split; [constructor|]. exists c, g'. split; [reflexivity|exact E].
Qed.

(* ====================== the state of a valid profile ====================== *)

Section Ctx.
Variables p0 p : profile.
Variable prev : estate.
Hypothesis Hctx : step_ctx cand ceqb p0 p prev.

Let d := escores prev.
Let r := remaining prev.
Let cs := cands p.
Let bs := ballots p.

Lemma ctx_wf : wf_stv0 p.
Proof. apply Hctx. Qed.

Lemma ctx_fpv : first_place_votes p = inl d.
Proof. apply Hctx. Qed.

Lemma ctx_keys : map fst d = cs.
Proof. apply (fpv_keys cand ceqb p d ctx_fpv). Qed.

Lemma ctx_nd_cs : NoDup cs.
Proof. apply ctx_wf. Qed.

Lemma ctx_nd_keys : NoDup (map fst d).
Proof. rewrite ctx_keys. exact ctx_nd_cs. Qed.

Lemma ctx_rem : r = score_to_ranking d true.
Proof. apply Hctx. Qed.

Lemma ctx_score : forall c, In c cs -> In (c, lookup0 c d) d /\ lookup0 c d == tally c bs.
Proof. intros c Hc. apply (fpv_lookup cand ceqb ceqb_spec p d ctx_wf ctx_fpv c Hc). Qed.

Lemma ctx_pair : forall c q, In (c, q) d -> In c cs /\ q == tally c bs /\ lookup0 c d = q.
Proof.
  intros c q H. split; [|split].
  - rewrite <- ctx_keys. apply in_map_iff. exists (c, q). split; [reflexivity|exact H].
  - apply (fpv_tally cand ceqb ceqb_spec p d ctx_wf ctx_fpv c q H).
  - apply (lookup0_in cand ceqb ceqb_spec d c q ctx_nd_keys H).
Qed.

Lemma ctx_bs_pos : forall b, In b bs -> 0 < wt b.
Proof.
  intros b Hb. destruct ctx_wf as [_ H]. rewrite Forall_forall in H. apply (H b Hb).
Qed.

Lemma ctx_flat_perm : Permutation (flat r) cs.
Proof. rewrite ctx_rem, <- ctx_keys. apply score_to_ranking_flat_perm_all. Qed.

Lemma ctx_flat_nd : NoDup (flat r).
Proof. eapply Permutation_NoDup; [apply Permutation_sym; exact ctx_flat_perm|exact ctx_nd_cs]. Qed.

Lemma ctx_flat_in : forall c, In c (flat r) <-> In c cs.
Proof.
  intros c. split; intros H; [eapply Permutation_in; [exact ctx_flat_perm|exact H]|].
  eapply Permutation_in; [apply Permutation_sym; exact ctx_flat_perm|exact H].
Qed.

Lemma ctx_d_nil : cs = [] -> d = [] /\ r = [[]].
Proof.
  intros E. assert (Hd : d = []).
  { pose proof ctx_keys as H. rewrite E in H. destruct d; [reflexivity|discriminate]. }
  split; [exact Hd|]. rewrite ctx_rem, Hd. reflexivity.
Qed.

Lemma ctx_d_ne : cs <> [] -> d <> [].
Proof. intros H E. apply H. rewrite <- ctx_keys, E. reflexivity. Qed.

Lemma ctx_groups_ne : cs <> [] -> Forall (fun g => g <> []) r.
Proof.
  intros H. apply Forall_forall. intros g Hg. rewrite ctx_rem in Hg.
  apply (score_to_ranking_nonempty_groups cand d g (ctx_d_ne H) Hg).
Qed.

Lemma ctx_group_in : forall g c, In g r -> In c g -> In c cs.
Proof.
  intros g c Hg Hc. apply ctx_flat_in. apply in_concat_iff. exists g. split; assumption.
Qed.

(* members of one group have the same tally *)
Lemma ctx_same_group : forall g c1 c2, In g r -> In c1 g -> In c2 g -> tally c1 bs == tally c2 bs.
Proof.
  intros g c1 c2 Hg H1 H2.
  pose proof (ctx_group_in g c1 Hg H1) as Hc1. pose proof (ctx_group_in g c2 Hg H2) as Hc2.
  destruct (ctx_score c1 Hc1) as [Hp1 Ht1]. destruct (ctx_score c2 Hc2) as [Hp2 Ht2].
  assert (Hd : d <> []) by (intros E; rewrite E in Hp1; destruct Hp1).
  rewrite <- Ht1, <- Ht2.
  apply (score_to_ranking_same_group_iff cand d c1 c2 _ _ Hd ctx_nd_keys Hp1 Hp2).
  exists g. rewrite <- ctx_rem. repeat split; assumption.
Qed.

(* earlier groups have strictly larger tallies *)
Lemma ctx_order : forall pre g1 mid g2 post c1 c2, r = pre ++ g1 :: mid ++ g2 :: post ->
  In c1 g1 -> In c2 g2 -> tally c2 bs < tally c1 bs.
Proof.
  intros pre g1 mid g2 post c1 c2 Hr H1 H2.
  assert (Hg1 : In g1 r) by (rewrite Hr; apply in_or_app; right; left; reflexivity).
  assert (Hg2 : In g2 r).
  { rewrite Hr. apply in_or_app. right. right. apply in_or_app. right. left. reflexivity. }
  pose proof (ctx_group_in g1 c1 Hg1 H1) as Hc1. pose proof (ctx_group_in g2 c2 Hg2 H2) as Hc2.
  destruct (ctx_score c1 Hc1) as [Hp1 Ht1]. destruct (ctx_score c2 Hc2) as [Hp2 Ht2].
  assert (Hd : d <> []) by (intros E; rewrite E in Hp1; destruct Hp1).
  rewrite <- Ht1, <- Ht2.
  apply (score_to_ranking_order cand d pre g1 mid g2 post c1 c2 _ _ Hd ctx_nd_keys);
    try assumption. rewrite <- ctx_rem. exact Hr.
Qed.

(* nobody / somebody reaches the threshold *)
Lemma above_nil_iff : forall t, above t d = [] <-> (forall c, In c cs -> tally c bs < t).
Proof.
  intros t. unfold above. split.
  - intros H c Hc. destruct (ctx_score c Hc) as [Hp Ht]. rewrite <- Ht.
    apply Qnot_le_lt. intros Hle.
    assert (Hin : In (c, lookup0 c d) (filter (fun q : cand * Q => Qle_bool t (snd q)) d)).
    { apply filter_In. split; [exact Hp|]. apply Qle_bool_iff. exact Hle. }
    rewrite H in Hin. destruct Hin.
  - intros H. apply Lib_sets.filter_all_false. intros [c q] Hin. cbn [snd].
    destruct (ctx_pair c q Hin) as (Hc & Hq & _).
    destruct (Qle_bool t q) eqn:E; [|reflexivity]. apply Qle_bool_iff in E.
    specialize (H c Hc). rewrite <- Hq in H. exfalso. apply (Qlt_not_le _ _ H). exact E.
Qed.

Lemma above_ne_iff : forall t, above t d <> [] <-> (exists c, In c cs /\ t <= tally c bs).
Proof.
  intros t. split.
  - intros H. unfold above in H.
    destruct (filter (fun q : cand * Q => Qle_bool t (snd q)) d) as [|[c q] l] eqn:E;
      [contradiction H; reflexivity|].
    assert (Hin : In (c, q) (filter (fun q : cand * Q => Qle_bool t (snd q)) d))
      by (rewrite E; left; reflexivity).
    apply filter_In in Hin. destruct Hin as [Hin Hq]. cbn [snd] in Hq. apply Qle_bool_iff in Hq.
    destruct (ctx_pair c q Hin) as (Hc & Hqt & _). exists c. split; [exact Hc|].
    rewrite <- Hqt. exact Hq.
  - intros (c & Hc & Ht) E. rewrite above_nil_iff in E. specialize (E c Hc).
    apply (Qlt_not_le _ _ E). exact Ht.
Qed.

Lemma score_ge_tally : forall t c, In c cs ->
  (score_ge cand ceqb d t c = true <-> t <= tally c bs).
Proof.
  intros t c Hc. unfold STV.score_ge. rewrite Qle_bool_iff.
  destruct (ctx_score c Hc) as [_ Ht]. rewrite Ht. reflexivity.
Qed.

(* the leading groups that reach the threshold: exactly the candidates with tally >= t *)
Lemma quota_groups_sem : forall t, cs <> [] ->
  exists el rest, quota_groups r d t = inl el /\ r = el ++ rest /\
    (forall c, In c (flat el) -> t <= tally c bs) /\
    (forall c, In c (flat rest) -> tally c bs < t).
Proof.
  intros t Hne.
  destruct (quota_groups_prefix r d t (ctx_groups_ne Hne)) as (el & rest & Hq & Hr & Hel & Hrest).
  exists el, rest. split; [exact Hq|]. split; [exact Hr|]. split.
  - intros c Hc. apply in_concat_iff in Hc. destruct Hc as (g & Hg & Hcg).
    rewrite Forall_forall in Hel. destruct (Hel g Hg) as (c0 & g' & -> & Hs).
    assert (Hgr : In (c0 :: g') r) by (rewrite Hr; apply in_or_app; left; exact Hg).
    rewrite (ctx_same_group _ c c0 Hgr Hcg (or_introl eq_refl)).
    apply score_ge_tally; [|exact Hs]. apply (ctx_group_in _ c0 Hgr). left. reflexivity.
  - intros c Hc. destruct rest as [|g0 rest']; [destruct Hc|].
    destruct Hrest as (c0 & g' & -> & Hs).
    assert (Hgr : In (c0 :: g') r).
    { rewrite Hr. apply in_or_app. right. left. reflexivity. }
    assert (Hc0 : In c0 cs) by (apply (ctx_group_in _ c0 Hgr); left; reflexivity).
    assert (Hlt : tally c0 bs < t).
    { apply Qnot_le_lt. intros Hle. apply (score_ge_tally t c0 Hc0) in Hle. congruence. }
    unfold Core.flat in Hc. cbn [concat] in Hc. apply in_app_or in Hc. destruct Hc as [Hc|Hc].
    + rewrite (ctx_same_group _ c c0 Hgr Hc (or_introl eq_refl)). exact Hlt.
    + apply in_concat_iff in Hc. destruct Hc as (g & Hg & Hcg).
      apply in_split in Hg. destruct Hg as (mid & post & ->).
      eapply Qlt_trans; [|exact Hlt].
      apply (ctx_order el (c0 :: g') mid g post c0 c); [exact Hr|left; reflexivity|exact Hcg].
Qed.

(* the first group holds the candidates of maximal tally *)
Lemma ctx_first_max : forall g rest w c, r = g :: rest -> In w g -> In c cs -> tally c bs <= tally w bs.
Proof.
  intros g rest w c Hr Hw Hc. apply ctx_flat_in in Hc. rewrite Hr in Hc.
  unfold Core.flat in Hc. cbn [concat] in Hc. apply in_app_or in Hc. destruct Hc as [Hc|Hc].
  - assert (Hg : In g r) by (rewrite Hr; left; reflexivity).
    rewrite (ctx_same_group g c w Hg Hc Hw). apply Qle_refl.
  - apply in_concat_iff in Hc. destruct Hc as (g2 & Hg2 & Hc2).
    apply in_split in Hg2. destruct Hg2 as (mid & post & ->).
    apply Qlt_le_weak. apply (ctx_order [] g mid g2 post w c); [exact Hr|exact Hw|exact Hc2].
Qed.

(* the last group holds the candidates of minimal tally *)
Lemma ctx_last_min : forall pre g x c, r = pre ++ [g] -> In x g -> In c cs -> tally x bs <= tally c bs.
Proof.
  intros pre g x c Hr Hx Hc. apply ctx_flat_in in Hc. rewrite Hr in Hc.
  rewrite (flat_app cand) in Hc. apply in_app_or in Hc. destruct Hc as [Hc|Hc].
  - apply in_concat_iff in Hc. destruct Hc as (g1 & Hg1 & Hc1).
    apply in_split in Hg1. destruct Hg1 as (pre' & mid & ->).
    apply Qlt_le_weak. apply (ctx_order pre' g1 mid g [] c x); [|exact Hc1|exact Hx].
    rewrite Hr, <- app_assoc. reflexivity.
  - unfold Core.flat in Hc. cbn [concat] in Hc. rewrite app_nil_r in Hc.
    assert (Hg : In g r) by (rewrite Hr; apply in_or_app; right; left; reflexivity).
    rewrite (ctx_same_group g x c Hg Hx Hc). apply Qle_refl.
Qed.

End Ctx.

End WithCand.
