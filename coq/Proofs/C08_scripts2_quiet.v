(* Proofs/C08_scripts2_quiet.v — property C08, "whenever no random tiebreak is recorded": a run of
   a deterministic rule none of whose rounds records a tiebreak is reproduced, round for round, on
   every equivalent profile FROM EVERY draw script.  Combines the C10 quiet theorems (no recorded
   tiebreak => no draw => script irrelevant, Proofs/C10_quiet.v) with the every-script anonymity
   theorems; plus the uniform statement of the latter over [rule]. *)
From Coq Require Import List ZArith QArith Bool Permutation Lia Lqa Setoid Morphisms.
From VK Require Import Base Core STV Pairwise Rules.
From VK.Spec Require Import Content ScoreSpec EditSpec Anon AnonRules TieSpec AnonRules2.
From VK.Proofs Require Import Lib_sets Lib_content Lib_condense C11_condense C04_scoring C12_edit Elect
  C08_anon C08_stv C08_pairwise C08_rules C08_dictator C08_scripts
  C08_candorder C08_scripts2 C08_scripts2_alaska C08_scripts2_rating.
From VK.Proofs Require C10_script C10_quiet.
Import ListNotations.
Open Scope Q_scope.

Section Quiet2.
Variable cand : Type.
Variable ceqb : cand -> cand -> bool.
Hypothesis ceqb_spec : forall a b, reflect (a = b) (ceqb a b).

Notation cset := (cset cand).
Notation ranking := (ranking cand).
Notation profile := (profile cand).
Notation mstate := (mstate cand).
Notation estate := (estate cand).
Notation flat := (flat cand).
Notation groups_equiv := (groups_equiv cand).
Notation state_equiv := (state_equiv cand).
Notation profile_equiv := (profile_equiv cand ceqb).
Notation stv_domain := (stv_domain cand).
Notation dom := (one_shot_domain cand).
Notation rating_domain := (rating_domain cand).
Notation mstate_equiv := (mstate_equiv cand ceqb).
Notation mres_equiv_log := (mres_equiv_log cand ceqb).
Notation st_rel := (st_rel cand).
Notation step_rel := (step_rel cand ceqb).
Notation no_tiebreak := (no_tiebreak cand).
Notation anon_domain := (anon_domain cand).
Notation script_caveats := (script_caveats cand).
Notation rated_tiebreak_ok := (rated_tiebreak_ok cand).
Notation run_rule := (run_rule cand ceqb).

(* ------------------------------------------------------------------ *)
(** * Generic facts *)

Lemma log_ok_inv : forall {A} (R : A -> A -> Prop) (X Y : res (A * mstate)) a (s1 : mstate),
  mres_equiv_log R X Y -> X = inl (a, s1) ->
  exists b s1', Y = inl (b, s1') /\ R a b /\ mstate_equiv s1 s1'.
Proof.
  intros A R X Y a s1 H ->. destruct Y as [[b s1']|e]; cbn in H; [|contradiction].
  exists b, s1'. destruct H as [H1 H2]. split; [reflexivity|split; [exact H1|exact H2]].
Qed.

Lemma res_ok_inv : forall {A} (R : A -> A -> Prop) (X Y : res A) a,
  res_equiv R X Y -> X = inl a -> exists b, Y = inl b /\ R a b.
Proof. intros A R X Y a H ->. destruct Y as [b|e]; cbn in H; [|contradiction]. exists b. split; [reflexivity|exact H]. Qed.

Lemma mres_equiv_to_log : forall {A} (R : A -> A -> Prop) (X Y : res (A * mstate)),
  mres_equiv cand R X Y -> mres_equiv_log R X Y.
Proof.
  intros A R X Y H. destruct X as [[a s1]|e]; destruct Y as [[b s2]|e']; cbn in H |- *; try contradiction; [|exact H].
  destruct H as [H1 H2]. cbn [fst snd] in *. subst s2. split; [exact H1|apply (mstate_equiv_refl cand ceqb)].
Qed.

Lemma quiet_equiv : forall sts sts' : list estate, Forall2 state_equiv sts sts' ->
  Forall no_tiebreak sts -> Forall no_tiebreak sts'.
Proof.
  intros sts sts' H. induction H as [|a b l l' Hab _ IH]; intros Hq; [constructor|].
  inversion Hq as [|x y Ha Hl]; subst. constructor; [|apply IH; exact Hl].
  unfold TieSpec.no_tiebreak in *. destruct Hab as [_ [_ [_ [_ [Ht _]]]]]. rewrite Ha in Ht.
  inversion Ht. reflexivity.
Qed.

(* from anonymity for every script to the reproduction of a quiet run from every script *)
Lemma quiet_from_script : forall r p p' (s s1 : mstate) sts,
  deterministic r ->
  (forall s2 : mstate, mres_equiv_log (Forall2 state_equiv) (run_rule r p s2) (run_rule r p' s2)) ->
  run_rule r p s = inl (sts, s1) -> Forall no_tiebreak sts ->
  forall s2 : mstate, exists sts', run_rule r p' s2 = inl (sts', s2) /\ Forall2 state_equiv sts sts'.
Proof.
  intros r p p' s s1 sts Hdet Hanon H Hq s2.
  destruct (C10_quiet.c10_script_irrelevant_proof cand ceqb r p s s1 sts Hdet H Hq) as [_ [_ Hall]].
  destruct (log_ok_inv _ _ _ _ _ (Hanon s2) (Hall s2)) as [sts' [s2' [E [He _]]]].
  pose proof (quiet_equiv sts sts' He Hq) as Hq'.
  destruct (C10_quiet.c10_script_irrelevant_proof cand ceqb r p' s2 s2' sts' Hdet E Hq') as [-> _].
  exists sts'. split; assumption.
Qed.

(* ------------------------------------------------------------------ *)
(** * The rating family: a quiet run does not depend on the configured tiebreak rule *)

Lemma elect_loop_quiet_tb : forall r need acc (p : option profile) tb tb' (s s' : mstate) el rem,
  elect_loop cand ceqb r need acc p tb s = inl ((el, rem, None), s') ->
  elect_loop cand ceqb r need acc p tb' s = inl ((el, rem, None), s').
Proof.
  induction r as [|g r IH]; intros need acc p tb tb' s s' el rem H.
  - destruct need; cbn [Core.elect_loop] in H |- *; [exact H|discriminate].
  - destruct need as [|n]; cbn [Core.elect_loop] in H |- *; [exact H|].
    destruct (Nat.leb (length g) (S n)); [apply (IH _ _ _ tb); exact H|].
    destruct tb as [k|]; [|discriminate]. unfold mbind in H.
    destruct (tiebreak_set cand ceqb g p k s) as [[t s1]|e]; [|discriminate].
    unfold mret, ok in H. inversion H.
Qed.

Lemma elect_top_m_quiet_tb : forall r m (p : option profile) tb tb' (s s' : mstate) el rem,
  elect_top_m cand ceqb r m p tb s = inl ((el, rem, None), s') ->
  elect_top_m cand ceqb r m p tb' s = inl ((el, rem, None), s').
Proof.
  intros r m p tb tb' s s' el rem H. unfold Core.elect_top_m in H |- *.
  destruct (m <? 1)%Z; [discriminate|].
  destruct (Z.of_nat (ranking_size cand r) <? m)%Z; [discriminate|].
  apply (elect_loop_quiet_tb _ _ _ _ tb). exact H.
Qed.

Lemma run_rating_quiet_tb : forall m L k tb tb' p (s s' : mstate) sts,
  run_rating cand ceqb m L k tb p s = inl (sts, s') -> Forall no_tiebreak sts ->
  run_rating cand ceqb m L k tb' p s = inl (sts, s').
Proof.
  intros m L k tb tb' p s s' sts H Hq.
  destruct (C10_quiet.run_rating_inv cand ceqb _ _ _ _ _ _ _ _ H) as [Ha [Hv H1]].
  destruct (C10_quiet.run_one_shot_inv cand ceqb _ _ _ _ _ _ _ H1) as [s0 [np [s1 [H0 [Hst ->]]]]].
  destruct (C10_quiet.one_shot_step_inv cand ceqb _ _ _ _ _ _ _ _ _ Hst) as [el [rem [t [d [He [Hnp [Hd ->]]]]]]].
  inversion Hq as [|x y _ Hq1]; subst. inversion Hq1 as [|x y Hq2 _]; subst.
  unfold TieSpec.no_tiebreak in Hq2. cbn [tiebreaks] in Hq2. apply C10_quiet.tb_list_nil in Hq2. subst t.
  pose proof (elect_top_m_quiet_tb _ _ _ tb tb' _ _ _ _ He) as He'.
  unfold Rules.run_rating, mbind, mlift. rewrite Ha, Hv. cbn [ok].
  unfold Rules.run_one_shot, mbind, mlift. rewrite H0. cbn [ok].
  unfold Rules.one_shot_step, mbind, mlift. rewrite He', Hnp. cbn [ok]. rewrite Hd. reflexivity.
Qed.

Lemma run_rating_quiet_anonymous : forall m L k tb p p' (s s1 : mstate) sts,
  rating_domain L k p -> rating_domain L k p' -> profile_equiv p p' ->
  run_rating cand ceqb m L k tb p s = inl (sts, s1) -> Forall no_tiebreak sts ->
  forall s2 : mstate, exists sts', run_rating cand ceqb m L k tb p' s2 = inl (sts', s2) /\ Forall2 state_equiv sts sts'.
Proof.
  intros m L k tb p p' s s1 sts Hd Hd' He H Hq s2.
  pose proof (run_rating_quiet_tb m L k tb None p s s1 sts H Hq) as H0.
  destruct (quiet_from_script (RRating m L k None) p p' s s1 sts I) with (s2 := s2) as [sts' [E He']];
    try assumption.
  { intros s3. apply (rating_rule_log cand ceqb ceqb_spec); try assumption.
    - intros [Hx|Hx]; discriminate.
    - apply (mstate_equiv_refl cand ceqb). }
  exists sts'. split; [|exact He']. cbn [Rules.run_rule] in E.
  apply (run_rating_quiet_tb m L k None tb); [exact E|]. apply (quiet_equiv sts sts' He' Hq).
Qed.

(* ------------------------------------------------------------------ *)
(** * Alaska: a quiet run is replayed without leaving the recorded run *)

Lemma alaska_quiet_anonymous : forall m1 m2 cfg p p' (s s1 : mstate) out,
  s_transfer cfg <> TRandom -> stv_domain p -> stv_domain p' -> profile_equiv p p' ->
  run_alaska cand ceqb m1 m2 cfg p s = inl (out, s1) -> Forall no_tiebreak out ->
  forall s2 : mstate, exists out', run_alaska cand ceqb m1 m2 cfg p' s2 = inl (out', s2) /\ Forall2 state_equiv out out'.
Proof.
  intros m1 m2 cfg p p' s s1 out Htr Hd Hd' He H Hq s2.
  assert (Hdet : deterministic (RAlaska m1 m2 cfg)) by exact Htr.
  destruct (C10_quiet.c10_script_irrelevant_proof cand ceqb (RAlaska m1 m2 cfg) p s s1 out Hdet H Hq) as [_ [_ Hall]].
  pose proof (Hall s2) as H2. cbn [Rules.run_rule] in H2.
  destruct (C10_quiet.run_alaska_inv cand ceqb _ _ _ _ _ _ _ H2)
    as [s0 [p1 [a1 [sa [t [sts [sb [pf [Ha [Hv [H0 [H1 [Ht [Hrun [_ Hout]]]]]]]]]]]]]]].
  pose proof (stv_domain_dom cand p Hd) as Hdo. pose proof (stv_domain_dom cand p' Hd') as Hdo'.
  (* round 0 *)
  destruct (res_ok_inv _ _ _ _ (round0_anonymous cand ceqb ceqb_spec SKFpv p p' Hdo Hdo' He) H0) as [s0' [H0' Hs0]].
  (* first stage *)
  destruct (log_ok_inv _ _ _ _ _
              (plurality_stage_log cand ceqb ceqb_spec m1 (s_tiebreak cfg) p p' s0 s0' s2 s2 Hdo Hdo' He
                 (proj1 Hs0) (mstate_equiv_refl cand ceqb s2)) H1)
    as [[p1' a1'] [sa' [H1' [[Hp1 [Ha1 _]] Hsa]]]]. cbn [fst snd] in Hp1, Ha1.
  pose proof (plurality_stage_domain cand ceqb ceqb_spec _ _ _ _ _ _ _ _ Hd H1) as Hd1.
  pose proof (plurality_stage_domain cand ceqb ceqb_spec _ _ _ _ _ _ _ _ Hd' H1') as Hd1'.
  (* STV stage *)
  assert (Htr2 : s_transfer (with_m cfg m2) <> TRandom) by exact Htr.
  pose proof (stv_init_anonymous cand ceqb ceqb_spec (with_m cfg m2) p1 p1' Hd1 Hd1' Hp1
                (fun X => False_ind _ (Htr2 X))) as Einit.
  assert (Ht' : stv_init cand (with_m cfg m2) p1' = inl t) by (rewrite <- Einit; exact Ht).
  destruct (log_ok_inv _ _ _ _ _
              (run_stv_log cand ceqb ceqb_spec (with_m cfg m2) p1 p1' sa sa' Htr2 Hsa Hd1 Hd1' Hp1) Hrun)
    as [sts' [sb' [Hrun' [Hsts _]]]].
  (* the recorded STV rounds carry no tiebreak, on either side *)
  assert (Hqs : Forall no_tiebreak sts).
  { subst out. inversion Hq as [|x y _ Hq1]; subst. inversion Hq1 as [|x y _ Hq2]; subst.
    apply C10_quiet.Forall_map_bump in Hq2.
    destruct (C10_quiet.run_stv_inv cand ceqb _ _ _ _ _ Hrun) as [t0 [q0 [newer [_ [Hi [-> _]]]]]].
    cbn [tl] in Hq2. constructor; [|exact Hq2].
    apply (C10_quiet.initial_state_no_tiebreak cand ceqb p1 q0 Hi). }
  pose proof (quiet_equiv sts sts' (st_rel_equiv cand _ _ Hsts) Hqs) as Hqs'.
  (* the replay on the second profile *)
  destruct (C10_quiet.run_stv_inv cand ceqb _ _ _ _ _ Hrun') as [t0 [q0' [newer' [Ht0 [_ [Ests' Hsteps']]]]]].
  rewrite Ht' in Ht0. inversion Ht0; subst t0.
  assert (Hqn : Forall no_tiebreak newer').
  { rewrite Ests' in Hqs'. inversion Hqs'; subst. assumption. }
  destruct (C10_quiet.steps_replay cand ceqb _ _ _ _ _ _ _ _ Htr2 Hsteps' Hqn q0' [] eq_refl sb') as [pf' Hrep'].
  cbn [rev] in Hrep'. rewrite <- Ests' in Hrep'.
  assert (E' : run_alaska cand ceqb m1 m2 cfg p' s2 = inl (s0' :: a1' :: map (bump cand) (tl sts'), sb')).
  { unfold Rules.run_alaska, mbind, mlift. rewrite Ha. cbn [ok].
    rewrite (ranking_validate_wf cand p' (proj1 (proj2 Hdo'))). cbn [ok]. rewrite H0'. cbn [ok].
    rewrite H1'. rewrite Ht'. cbn [ok]. rewrite Hrun'. rewrite Hrep'. reflexivity. }
  assert (Heq : Forall2 state_equiv out (s0' :: a1' :: map (bump cand) (tl sts'))).
  { subst out. constructor; [exact Hs0|constructor; [exact Ha1|]].
    apply (Forall2_map2 state_equiv state_equiv); [apply (bump_equiv cand)|].
    apply Forall2_tl. apply (st_rel_equiv cand). exact Hsts. }
  pose proof (quiet_equiv _ _ Heq Hq) as Hq'.
  destruct (C10_quiet.c10_script_irrelevant_proof cand ceqb (RAlaska m1 m2 cfg) p' s2 sb' _ Hdet E' Hq') as [-> _].
  eexists. split; [exact E'|exact Heq].
Qed.

(* ------------------------------------------------------------------ *)
(** * Every deterministic rule, uniformly *)

(* every tiebreak setting, every script; [script_caveats]: the rating family with a rank-based
   tiebreak rule needs the two profiles to agree on having ballots; Alaska needs [alaska_script_ok] *)
Theorem rule_script_anonymous : forall (r : rule) (p p' : profile) (s : mstate),
  deterministic r -> anon_domain r p -> anon_domain r p' -> profile_equiv p p' -> script_caveats r p p' ->
  mres_equiv_log (Forall2 state_equiv) (run_rule r p s) (run_rule r p' s).
Proof.
  intros r p p' s Hdet Hd Hd' He Hc. pose proof (mstate_equiv_refl cand ceqb s) as Hs.
  destruct r; cbn [AnonRules2.anon_domain AnonRules2.script_caveats TieSpec.deterministic] in *.
  - apply (stv_script_anonymous cand ceqb ceqb_spec); assumption.
  - apply (plurality_script_anonymous cand ceqb ceqb_spec); assumption.
  - apply (borda_script_anonymous cand ceqb ceqb_spec); assumption.
  - apply (rating_rule_log cand ceqb ceqb_spec); assumption.
  - apply (limited_rule_log cand ceqb ceqb_spec); assumption.
  - apply (bloc_rule_log cand ceqb ceqb_spec); assumption.
  - apply mres_equiv_to_log. apply (dominating_anonymous cand ceqb ceqb_spec); assumption.
  - apply (condo_script_anonymous cand ceqb ceqb_spec); assumption.
  - apply (toptwo_script_anonymous cand ceqb ceqb_spec); assumption.
  - apply (alaska_script_anonymous cand ceqb ceqb_spec); assumption.
  - contradiction.
  - contradiction.
Qed.

(* "whenever no random tiebreak is recorded": no premise on any script, no caveat *)
Theorem quiet_run_anonymous : forall (r : rule) (p p' : profile) (s s1 : mstate) (sts : list estate),
  deterministic r -> anon_domain r p -> anon_domain r p' -> profile_equiv p p' ->
  run_rule r p s = inl (sts, s1) -> Forall no_tiebreak sts ->
  forall s2 : mstate, exists sts', run_rule r p' s2 = inl (sts', s2) /\ Forall2 state_equiv sts sts'.
Proof.
  intros r p p' s s1 sts Hdet Hd Hd' He H Hq.
  assert (Hgen : script_caveats r p p' ->
            forall s2 : mstate, exists sts', run_rule r p' s2 = inl (sts', s2) /\ Forall2 state_equiv sts sts').
  { intros Hc. apply (quiet_from_script r p p' s s1 sts Hdet); try assumption.
    intros s3. apply rule_script_anonymous; assumption. }
  destruct r; try (apply Hgen; exact I);
    cbn [AnonRules2.anon_domain TieSpec.deterministic Rules.run_rule] in *.
  - apply (run_rating_quiet_anonymous m L k tb p p' s s1 sts); assumption.
  - destruct (Qlt_bool (inject_Z m) k); [discriminate|].
    apply (run_rating_quiet_anonymous m k (Some k) tb p p' s s1 sts); assumption.
  - apply (run_rating_quiet_anonymous m 1 _ tb p p' s s1 sts); assumption.
  - apply (alaska_quiet_anonymous m1 m2 cfg p p' s s1 sts); assumption.
Qed.

(* ------------------------------------------------------------------ *)
(** * Listing the candidates in a different order *)

Lemma anon_domain_perm : forall r (bs : list (ballot cand)) cs cs',
  anon_domain r (mkProfile bs cs) -> Permutation cs cs' -> anon_domain r (mkProfile bs cs').
Proof.
  intros r bs cs cs' Hd Hp. destruct r; cbn [AnonRules2.anon_domain] in *; try contradiction;
    try (apply (stv_domain_perm cand bs cs cs' Hd Hp));
    try (apply (dom_perm cand _ bs cs cs' Hd Hp));
    try (apply (rating_domain_perm cand _ _ bs cs cs' Hd Hp)).
  apply (pw_domain_perm cand bs cs cs' Hd Hp).
Qed.

Theorem rule_script_cand_order : forall (r : rule) (bs : list (ballot cand)) (cs cs' : cset) (s : mstate),
  deterministic r -> anon_domain r (mkProfile bs cs) -> Permutation cs cs' ->
  (forall m1 m2 cfg, r = RAlaska m1 m2 cfg -> alaska_script_ok cfg) ->
  mres_equiv_log (Forall2 state_equiv) (run_rule r (mkProfile bs cs) s) (run_rule r (mkProfile bs cs') s).
Proof.
  intros r bs cs cs' s Hdet Hd Hp Hal. apply rule_script_anonymous; try assumption.
  - apply anon_domain_perm with (cs := cs); assumption.
  - apply (cand_order_equiv cand ceqb). exact Hp.
  - destruct r; cbn [AnonRules2.script_caveats]; try exact I;
      try (intros _; cbn [ballots]; split; intros X; exact X).
    apply (Hal m1 m2 cfg eq_refl).
Qed.

(* ------------------------------------------------------------------ *)
(** * Corollaries stated with the Spec vocabulary only *)

(* one STV step of a live run (the recorded round belongs to the current profile) *)
Theorem stv_step_script_anonymous : forall cfg t p0 p0' n p p' prev prev' (s s' : mstate),
  s_transfer cfg <> TRandom -> mstate_equiv s s' ->
  stv_domain p0 -> stv_domain p0' -> profile_equiv p0 p0' ->
  stv_domain p -> stv_domain p' -> profile_equiv p p' ->
  stv_state_ok cand p prev -> stv_state_ok cand p' prev' -> state_equiv prev prev' ->
  mres_equiv_log (stv_step_equiv cand ceqb)
    (stv_step cand ceqb cfg t p0 n p prev s) (stv_step cand ceqb cfg t p0' n p' prev' s').
Proof.
  intros cfg t p0 p0' n p p' prev prev' s s' Htr Hs Hd0 Hd0' He0 Hd Hd' He Hok Hok' Hse.
  apply (stv_step_log cand ceqb ceqb_spec); try assumption.
  - apply (state_ok_int cand p prev (proj1 Hd) Hok).
  - apply (state_ok_int cand p' prev' (proj1 Hd') Hok').
  - intros _. right. apply Hok.
Qed.

(* IRV and SequentialRCV as dispatched by Model/Election.v *)
Theorem irv_script_anonymous : forall q tb p p' (s : mstate),
  stv_domain p -> stv_domain p' -> profile_equiv p p' ->
  mres_equiv_log (Forall2 state_equiv)
    (run_rule (RSTV (mkStv 1 q true TFractional tb)) p s) (run_rule (RSTV (mkStv 1 q true TFractional tb)) p' s).
Proof. intros. apply (stv_script_anonymous cand ceqb ceqb_spec); try assumption. discriminate. Qed.

Theorem seqrcv_script_anonymous : forall m q simul tb p p' (s : mstate),
  stv_domain p -> stv_domain p' -> profile_equiv p p' ->
  mres_equiv_log (Forall2 state_equiv)
    (run_rule (RSTV (mkStv m q simul TFullWeight tb)) p s) (run_rule (RSTV (mkStv m q simul TFullWeight tb)) p' s).
Proof. intros. apply (stv_script_anonymous cand ceqb ceqb_spec); try assumption. discriminate. Qed.

Theorem stv_script_cand_order : forall cfg (bs : list (ballot cand)) cs cs' (s : mstate),
  s_transfer cfg <> TRandom -> stv_domain (mkProfile bs cs) -> Permutation cs cs' ->
  mres_equiv_log (Forall2 state_equiv) (run_rule (RSTV cfg) (mkProfile bs cs) s) (run_rule (RSTV cfg) (mkProfile bs cs') s).
Proof.
  intros cfg bs cs cs' s Htr Hd Hp. apply (stv_script_anonymous cand ceqb ceqb_spec); try assumption.
  - apply (stv_domain_perm cand bs cs cs' Hd Hp).
  - apply (cand_order_equiv cand ceqb). exact Hp.
Qed.

(* the rating family, same source state *)
Theorem rating_script_anonymous : forall m L k tb p p' (s : mstate),
  rating_domain L k p -> rating_domain L k p' -> profile_equiv p p' -> rated_tiebreak_ok tb p p' ->
  mres_equiv_log (Forall2 state_equiv) (run_rule (RRating m L k tb) p s) (run_rule (RRating m L k tb) p' s).
Proof. intros. apply (rating_rule_log cand ceqb ceqb_spec); try assumption. apply (mstate_equiv_refl cand ceqb). Qed.

Theorem limited_script_anonymous : forall m k tb p p' (s : mstate),
  rating_domain k (Some k) p -> rating_domain k (Some k) p' -> profile_equiv p p' -> rated_tiebreak_ok tb p p' ->
  mres_equiv_log (Forall2 state_equiv) (run_rule (RLimited m k tb) p s) (run_rule (RLimited m k tb) p' s).
Proof. intros. apply (limited_rule_log cand ceqb ceqb_spec); try assumption. apply (mstate_equiv_refl cand ceqb). Qed.

Theorem bloc_script_anonymous : forall m k tb p p' (s : mstate),
  rating_domain 1 (Some (inject_Z (bloc_limit m k))) p ->
  rating_domain 1 (Some (inject_Z (bloc_limit m k))) p' -> profile_equiv p p' -> rated_tiebreak_ok tb p p' ->
  mres_equiv_log (Forall2 state_equiv) (run_rule (RBloc m k tb) p s) (run_rule (RBloc m k tb) p' s).
Proof. intros. apply (bloc_rule_log cand ceqb ceqb_spec); try assumption. apply (mstate_equiv_refl cand ceqb). Qed.

(* no caveat when the tiebreak rule does not re-score from rankings (none, "random", invalid) *)
Theorem rating_unscored_script_anonymous : forall m L k tb p p' (s : mstate),
  ~ scored_tb tb -> rating_domain L k p -> rating_domain L k p' -> profile_equiv p p' ->
  mres_equiv_log (Forall2 state_equiv) (run_rule (RRating m L k tb) p s) (run_rule (RRating m L k tb) p' s).
Proof.
  intros m L k tb p p' s Hn Hd Hd' He. apply rating_script_anonymous; try assumption.
  intros Hx. contradiction.
Qed.

End Quiet2.

(* ------------------------------------------------------------------ *)
(** * The rating family with a rank-based tiebreak rule: no ballots vs. one ballot of weight zero *)

Import C08Witness.

Definition rz_p : profile positive := mkProfile [] [1;2]%positive.
Definition rz_p' : profile positive := mkProfile [sb [(1%positive, 1)] 0] [1;2]%positive.
Definition rz_s : mstate positive := mkM [DPerm [2;1]%positive] [].

Lemma rating_scored_tiebreak_ex :
  profile_equiv positive Pos.eqb rz_p rz_p' /\
  rating_domain positive 1 None rz_p /\ rating_domain positive 1 None rz_p' /\
  (exists sts s1, run_rule positive Pos.eqb (RRating 1 1 None (Some TBFirstPlace)) rz_p rz_s = inl (sts, s1)) /\
  run_rule positive Pos.eqb (RRating 1 1 None (Some TBFirstPlace)) rz_p' rz_s = inr EType.
Proof.
  split; [|split; [|split; [|split]]].
  - split; [|apply Permutation_refl]. cbn [ballots rz_p rz_p']. intros k.
    rewrite !wtof_cons, wtof_nil. destruct (same_content positive Pos.eqb k _); cbn [wt sb]; ring.
  - unfold AnonRules.rating_domain. split; [apply rated_dom; constructor|cbn [ballots rz_p]; constructor].
  - unfold AnonRules.rating_domain. split.
    + apply rated_dom. repeat constructor. exists 1%positive, 1, 0. repeat split; [left; reflexivity|discriminate].
    + cbn [ballots rz_p']. constructor; [|constructor]. intros _. split; [|exact I].
      intros c q [H|[]]. inversion H; subst. split; discriminate.
  - eexists. eexists. vm_compute. reflexivity.
  - vm_compute. reflexivity.
Qed.
