(* Proofs/C19_alln.v — property C19, part 2, for EVERY number of candidates: the recursive
   construction [build_graph] yields exactly the valid nodes, without repetition, joined exactly by
   adjacent swaps and last-candidate extensions (induction on the construction, no evaluation beyond
   the base cases n <= 2); loading a profile with and without completion of short ballots. *)
From VK Require Import Base Core Metrics EditSpec MetricSpec.
From VK.Spec Require Import GraphLoadSpec.
From VK.Proofs Require Import Lib_sets Lib_rk C19_graph.
From Coq Require Import Permutation Lia Lqa Setoid Morphisms.

Local Open Scope nat_scope.

(* ------------------------------------------------------------------ *)
(** * The relabelling i + y (mod n) and its inverse *)

Definition unshift (i n z : nat) : nat := if Nat.ltb i z then z - i else z + n - i.

Lemma shift_range : forall i n y, 1 <= i <= n -> 1 <= y <= n - 1 ->
  1 <= shift i n y <= n /\ shift i n y <> i.
Proof. intros i n y Hi Hy. unfold shift. destruct (Nat.ltb_spec n (i + y)); lia. Qed.

Lemma shift_inj : forall i n y y', 1 <= i <= n -> 1 <= y <= n - 1 -> 1 <= y' <= n - 1 ->
  shift i n y = shift i n y' -> y = y'.
Proof.
  intros i n y y' Hi Hy Hy'. unfold shift.
  destruct (Nat.ltb_spec n (i + y)), (Nat.ltb_spec n (i + y')); lia.
Qed.

Lemma unshift_range : forall i n z, 1 <= i <= n -> 1 <= z <= n -> z <> i ->
  1 <= unshift i n z <= n - 1.
Proof. intros i n z Hi Hz Hne. unfold unshift. destruct (Nat.ltb_spec i z); lia. Qed.

Lemma shift_unshift : forall i n z, 1 <= i <= n -> 1 <= z <= n -> z <> i ->
  shift i n (unshift i n z) = z.
Proof.
  intros i n z Hi Hz Hne. unfold unshift, shift.
  destruct (Nat.ltb_spec i z) as [H|H].
  - destruct (Nat.ltb_spec n (i + (z - i))); lia.
  - destruct (Nat.ltb_spec n (i + (z + n - i))); lia.
Qed.

Lemma unshift_inj : forall i n z z', 1 <= i <= n -> 1 <= z <= n -> 1 <= z' <= n -> z <> i -> z' <> i ->
  unshift i n z = unshift i n z' -> z = z'.
Proof.
  intros i n z z' Hi Hz Hz' Hne Hne' E.
  rewrite <- (shift_unshift i n z), <- (shift_unshift i n z'), E by assumption. reflexivity.
Qed.

(* ------------------------------------------------------------------ *)
(** * Valid nodes of size n+1 are the bullet votes and the relabelled valid nodes of size n *)

Lemma valid_perm : forall n a b, Permutation a b -> valid_node n a -> valid_node n b.
Proof.
  intros n a b Hp [Hnd [Hr [Hlen Hne]]]. unfold valid_node.
  rewrite <- (Permutation_length Hp). split; [apply (Permutation_NoDup Hp); exact Hnd|].
  split; [|split; assumption]. intros x Hx. apply Hr. apply (Permutation_in _ (Permutation_sym Hp)). exact Hx.
Qed.

Lemma valid_single : forall n i, 1 <= i <= n -> n <> 2 -> valid_node n [i].
Proof.
  intros n i Hi Hn. unfold valid_node. split; [constructor; [intros []|constructor]|].
  split; [intros x [<-|[]]; exact Hi|]. cbn [length]. lia.
Qed.

Lemma valid_relabel : forall n' i k, 1 <= i <= S n' -> valid_node n' k ->
  valid_node (S n') (relabel_node i (S n') k).
Proof.
  intros n' i k Hi [Hnd [Hr [Hlen Hne]]]. unfold valid_node, relabel_node.
  assert (Hs : forall y, In y k -> 1 <= shift i (S n') y <= S n' /\ shift i (S n') y <> i).
  { intros y Hy. apply shift_range; [exact Hi|]. specialize (Hr y Hy). lia. }
  split.
  - constructor.
    + intros Hin. apply in_map_iff in Hin. destruct Hin as [y [E Hy]]. apply (Hs y Hy). exact E.
    + apply NoDup_map_inj_in; [|exact Hnd]. intros x y Hx Hy E.
      apply (shift_inj i (S n')); try exact E; try exact Hi.
      * specialize (Hr x Hx). lia.
      * specialize (Hr y Hy). lia.
  - split.
    + intros x [<-|Hx]; [exact Hi|]. apply in_map_iff in Hx. destruct Hx as [y [<- Hy]]. apply (Hs y Hy).
    + cbn [length]. rewrite map_length. lia.
Qed.

Lemma valid_tail : forall n' i k', k' <> [] -> valid_node (S n') (i :: k') ->
  1 <= i <= S n' /\ valid_node n' (map (unshift i (S n')) k') /\
  i :: k' = relabel_node i (S n') (map (unshift i (S n')) k').
Proof.
  intros n' i k' Hne [Hnd [Hr [Hlen Hl]]]. inversion Hnd as [|i' l' Hnotin Hnd']; subst.
  assert (Hi : 1 <= i <= S n') by (apply Hr; left; reflexivity).
  assert (Hk : forall z, In z k' -> 1 <= z <= S n' /\ z <> i).
  { intros z Hz. split; [apply Hr; right; exact Hz|]. intros ->. contradiction. }
  split; [exact Hi|]. split.
  - unfold valid_node. split.
    + apply NoDup_map_inj_in; [|exact Hnd']. intros x y Hx Hy E.
      apply (unshift_inj i (S n')); try exact E; try exact Hi; try apply (Hk x Hx); apply (Hk y Hy).
    + split.
      * intros x Hx. apply in_map_iff in Hx. destruct Hx as [z [<- Hz]].
        pose proof (unshift_range i (S n') z Hi (proj1 (Hk z Hz)) (proj2 (Hk z Hz))). lia.
      * rewrite map_length. cbn [length] in Hlen, Hl. destruct k' as [|z k']; [contradiction Hne; reflexivity|].
        cbn [length] in *. lia.
  - unfold relabel_node. f_equal. rewrite map_map. rewrite <- (map_id k') at 1. apply map_ext_in.
    intros z Hz. symmetry. apply shift_unshift; [exact Hi|apply (Hk z Hz)|apply (Hk z Hz)].
Qed.

(* ------------------------------------------------------------------ *)
(** * add_node / add_edge folds *)

Lemma add_node_In : forall ns x k, In k (add_node ns x) <-> In k ns \/ k = x.
Proof.
  intros ns x k. unfold add_node. destruct (existsb (node_eqb x) ns) eqn:E.
  - apply existsb_node_In in E. split; [intros H; left; exact H|intros [H| ->]; assumption].
  - rewrite in_app_iff. cbn [In]. split; [intros [H|[<-|[]]]|intros [H| ->]]; auto.
Qed.

Lemma add_node_NoDup : forall ns x, NoDup ns -> NoDup (add_node ns x).
Proof.
  intros ns x H. unfold add_node. destruct (existsb (node_eqb x) ns) eqn:E; [exact H|].
  apply NoDup_app_intro; [exact H|constructor; [intros []|constructor]|].
  intros a Ha [<-|[]]. apply existsb_node_In in Ha. congruence.
Qed.

Lemma fold_add_node_In : forall xs ns k, In k (fold_left add_node xs ns) <-> In k ns \/ In k xs.
Proof.
  induction xs as [|x xs IH]; intros ns k; cbn [fold_left In].
  - tauto.
  - rewrite IH, add_node_In. split; [intros [[H|H]|H]|intros [H|[H|H]]]; auto.
Qed.

Lemma fold_add_node_NoDup : forall xs ns, NoDup ns -> NoDup (fold_left add_node xs ns).
Proof.
  induction xs as [|x xs IH]; intros ns H; cbn [fold_left]; [exact H|].
  apply IH. apply add_node_NoDup. exact H.
Qed.

Definition hasE (es : list gedge) (a b : node) : Prop := In (a, b) es \/ In (b, a) es.

Lemma hasE_sym : forall es a b, hasE es a b <-> hasE es b a.
Proof. intros es a b. unfold hasE. tauto. Qed.

Lemma edge_eqb_spec : forall e f, edge_eqb e f = true <-> e = f \/ e = (snd f, fst f).
Proof.
  intros [a b] [c d]. unfold edge_eqb. cbn [fst snd].
  rewrite orb_true_iff, !andb_true_iff, !node_eqb_eq. split.
  - intros [[-> ->]|[-> ->]]; [left|right]; reflexivity.
  - intros [E|E]; injection E as -> ->; [left|right]; split; reflexivity.
Qed.

Lemma add_edge_has : forall es e a b,
  hasE (add_edge es e) a b <-> hasE es a b \/ e = (a, b) \/ e = (b, a).
Proof.
  intros es e a b. unfold add_edge. destruct (existsb (edge_eqb e) es) eqn:E.
  - split; [intros H; left; exact H|]. intros [H|H]; [exact H|].
    apply existsb_exists in E. destruct E as [[c d] [Hf Hef]]. apply edge_eqb_spec in Hef.
    cbn [fst snd] in Hef. unfold hasE.
    destruct H as [->| ->]; destruct Hef as [Hef|Hef]; injection Hef as -> ->; auto.
  - unfold hasE. rewrite !in_app_iff. cbn [In]. split.
    + intros [[H|[<-|[]]]|[H|[<-|[]]]]; auto.
    + intros [[H|H]|[->| ->]]; auto.
Qed.

Lemma fold_add_edge_has : forall xs es a b,
  hasE (fold_left add_edge xs es) a b <-> hasE es a b \/ In (a, b) xs \/ In (b, a) xs.
Proof.
  induction xs as [|x xs IH]; intros es a b; cbn [fold_left In].
  - tauto.
  - rewrite IH, add_edge_has. split.
    + intros [[H|[H|H]]|[H|H]]; auto.
    + intros [H|[[H|H]|[H|H]]]; auto.
Qed.

(* ------------------------------------------------------------------ *)
(** * The recursive step of build_graph, named *)

Definition per_corner (n : nat) (prev g : graph) (i : nat) : graph :=
  let corner_nodes := map (relabel_node i n) (g_nodes prev) in
  let corner_edges := map (fun e => (relabel_node i n (fst e), relabel_node i n (snd e)))
                          (g_edges prev) in
  let ns := fold_left add_node ([i] :: corner_nodes) (g_nodes g) in
  let es := fold_left add_edge corner_edges (g_edges g) in
  let bullet := filter (fun k => Nat.eqb n 3 || Nat.eqb (length k) 2) corner_nodes in
  let es' := fold_left add_edge (map (fun k => (k, [i])) bullet) es in
  mkGraph ns es'.

Definition swaps_of (ns : list node) : list gedge :=
  concat (map (fun b => match b with
                        | x :: y :: rest => [(b, y :: x :: rest)]
                        | _ => []
                        end) ns).

Lemma build_graph_step : forall m,
  build_graph (S (S (S m))) =
  let n := S (S (S m)) in
  let g1 := fold_left (per_corner n (build_graph (S (S m)))) (seq 1 n) (mkGraph [] []) in
  mkGraph (g_nodes g1) (fold_left add_edge (swaps_of (g_nodes g1)) (g_edges g1)).
Proof. reflexivity. Qed.

Section Corners.
Variable n : nat.
Variable prev : graph.

Lemma corners_nodes_In : forall is g k,
  In k (g_nodes (fold_left (per_corner n prev) is g)) <->
  In k (g_nodes g) \/
  exists i, In i is /\ (k = [i] \/ exists k', In k' (g_nodes prev) /\ k = relabel_node i n k').
Proof.
  induction is as [|i is IH]; intros g k; cbn [fold_left].
  - split; [intros H; left; exact H|intros [H|[i [[] _]]]; exact H].
  - rewrite IH. unfold per_corner. cbn [g_nodes]. rewrite fold_add_node_In. cbn [In].
    rewrite in_map_iff. split.
    + intros [[H|[H|[k' [E Hk']]]]|[j [Hj H]]].
      * left. exact H.
      * right. exists i. split; [left; reflexivity|left; symmetry; exact H].
      * right. exists i. split; [left; reflexivity|right; exists k'; split; [exact Hk'|symmetry; exact E]].
      * right. exists j. split; [right; exact Hj|exact H].
    + intros [H|[j [[<-|Hj] H]]].
      * left. left. exact H.
      * left. right. destruct H as [->|[k' [Hk' ->]]]; [left; reflexivity|right; exists k'; split; [reflexivity|exact Hk']].
      * right. exists j. split; [exact Hj|exact H].
Qed.

Lemma corners_nodes_NoDup : forall is g,
  NoDup (g_nodes g) -> NoDup (g_nodes (fold_left (per_corner n prev) is g)).
Proof.
  induction is as [|i is IH]; intros g H; cbn [fold_left]; [exact H|].
  apply IH. unfold per_corner. cbn [g_nodes]. apply fold_add_node_NoDup. exact H.
Qed.

(* a directed edge created while processing corner i *)
Definition corner_edge (i : nat) (a b : node) : Prop :=
  (exists a' b', In (a', b') (g_edges prev) /\ a = relabel_node i n a' /\ b = relabel_node i n b') \/
  (b = [i] /\ (n = 3 \/ length a = 2) /\ exists k, In k (g_nodes prev) /\ a = relabel_node i n k).

Lemma corner_edges_In : forall i a b,
  In (a, b) (map (fun e => (relabel_node i n (fst e), relabel_node i n (snd e))) (g_edges prev)) <->
  exists a' b', In (a', b') (g_edges prev) /\ a = relabel_node i n a' /\ b = relabel_node i n b'.
Proof.
  intros i a b. rewrite in_map_iff. split.
  - intros [[a' b'] [E He]]. cbn [fst snd] in E. injection E as <- <-. exists a', b'. repeat split. exact He.
  - intros [a' [b' [He [-> ->]]]]. exists (a', b'). split; [reflexivity|exact He].
Qed.

Lemma bullet_edges_In : forall i a b,
  In (a, b) (map (fun k => (k, [i]))
                 (filter (fun k => Nat.eqb n 3 || Nat.eqb (length k) 2)
                         (map (relabel_node i n) (g_nodes prev)))) <->
  b = [i] /\ (n = 3 \/ length a = 2) /\ exists k, In k (g_nodes prev) /\ a = relabel_node i n k.
Proof.
  intros i a b. rewrite in_map_iff. split.
  - intros [k [E Hk]]. injection E as <- <-. apply filter_In in Hk. destruct Hk as [Hk Hc].
    apply in_map_iff in Hk. destruct Hk as [k' [<- Hk']].
    apply orb_true_iff in Hc. rewrite !Nat.eqb_eq in Hc.
    split; [reflexivity|]. split; [exact Hc|]. exists k'. split; [exact Hk'|reflexivity].
  - intros [-> [Hc [k [Hk ->]]]]. exists (relabel_node i n k). split; [reflexivity|].
    apply filter_In. split; [apply in_map; exact Hk|]. apply orb_true_iff. rewrite !Nat.eqb_eq. exact Hc.
Qed.

Lemma per_corner_has : forall g i a b,
  hasE (g_edges (per_corner n prev g i)) a b <->
  hasE (g_edges g) a b \/ corner_edge i a b \/ corner_edge i b a.
Proof.
  intros g i a b. unfold per_corner. cbn [g_edges].
  rewrite !fold_add_edge_has, !corner_edges_In, !bullet_edges_In. unfold corner_edge. tauto.
Qed.

Lemma corners_has : forall is g a b,
  hasE (g_edges (fold_left (per_corner n prev) is g)) a b <->
  hasE (g_edges g) a b \/ exists i, In i is /\ (corner_edge i a b \/ corner_edge i b a).
Proof.
  induction is as [|i is IH]; intros g a b; cbn [fold_left].
  - split; [intros H; left; exact H|intros [H|[i [[] _]]]; exact H].
  - rewrite IH, per_corner_has. cbn [In]. split.
    + intros [[H|H]|[j [Hj H]]].
      * left. exact H.
      * right. exists i. split; [left; reflexivity|exact H].
      * right. exists j. split; [right; exact Hj|exact H].
    + intros [H|[j [[<-|Hj] H]]].
      * left. left. exact H.
      * left. right. exact H.
      * right. exists j. split; [exact Hj|exact H].
Qed.

End Corners.

Lemma swaps_In : forall ns a b,
  In (a, b) (swaps_of ns) <-> In a ns /\ exists x y r, a = x :: y :: r /\ b = y :: x :: r.
Proof.
  intros ns a b. unfold swaps_of. rewrite in_concat. split.
  - intros [l [Hl Hab]]. apply in_map_iff in Hl. destruct Hl as [c [<- Hc]].
    destruct c as [|x [|y r]]; [destruct Hab|destruct Hab|]. destruct Hab as [E|[]].
    injection E as <- <-. split; [exact Hc|]. exists x, y, r. split; reflexivity.
  - intros [Ha [x [y [r [-> ->]]]]]. exists [(x :: y :: r, y :: x :: r)]. split; [|left; reflexivity].
    apply in_map_iff. exists (x :: y :: r). split; [reflexivity|exact Ha].
Qed.

(* nodes and edges of build_graph (n+1) in terms of build_graph n, n >= 2 *)
Lemma build_nodes_In : forall m k,
  In k (g_nodes (build_graph (S (S (S m))))) <->
  exists i, 1 <= i <= S (S (S m)) /\
    (k = [i] \/ exists k', In k' (g_nodes (build_graph (S (S m)))) /\ k = relabel_node i (S (S (S m))) k').
Proof.
  intros m k. rewrite build_graph_step. cbv zeta. cbn [g_nodes]. rewrite corners_nodes_In. cbn [g_nodes In].
  split.
  - intros [[]|[i [Hi H]]]. exists i. apply in_seq in Hi. split; [lia|exact H].
  - intros [i [Hi H]]. right. exists i. split; [apply in_seq; lia|exact H].
Qed.

Lemma build_nodes_NoDup : forall m, NoDup (g_nodes (build_graph (S (S (S m))))).
Proof.
  intros m. rewrite build_graph_step. cbv zeta. cbn [g_nodes]. apply corners_nodes_NoDup. constructor.
Qed.

Lemma build_has : forall m a b,
  has_edge (build_graph (S (S (S m)))) a b <->
  (exists i, 1 <= i <= S (S (S m)) /\
     (corner_edge (S (S (S m))) (build_graph (S (S m))) i a b \/
      corner_edge (S (S (S m))) (build_graph (S (S m))) i b a)) \/
  In (a, b) (swaps_of (g_nodes (build_graph (S (S (S m)))))) \/
  In (b, a) (swaps_of (g_nodes (build_graph (S (S (S m)))))).
Proof.
  intros m a b. change (has_edge (build_graph (S (S (S m)))) a b)
    with (hasE (g_edges (build_graph (S (S (S m))))) a b).
  rewrite build_graph_step. cbv zeta. cbn [g_nodes g_edges]. rewrite fold_add_edge_has, corners_has.
  cbn [g_edges]. unfold hasE at 1. cbn [In]. split.
  - intros [[[[]|[]]|[i [Hi H]]]|H]; [left|right; exact H]. exists i. apply in_seq in Hi. split; [lia|exact H].
  - intros [[i [Hi H]]|H]; [left; right|right; exact H]. exists i. split; [apply in_seq; lia|exact H].
Qed.

(* ------------------------------------------------------------------ *)
(** * The adjacency relation under relabelling *)

Lemma spec_adj_sym : forall n a b, spec_adjacent_prop n a b -> spec_adjacent_prop n b a.
Proof.
  intros n a b [[l [x [y [r [-> ->]]]]]|[H|H]].
  - left. exists l, y, x, r. split; reflexivity.
  - right. right. exact H.
  - right. left. exact H.
Qed.

Lemma relabel_app : forall i n a t,
  relabel_node i n (a ++ t) = relabel_node i n a ++ map (shift i n) t.
Proof. intros i n a t. unfold relabel_node. rewrite map_app. reflexivity. Qed.

Lemma relabel_length : forall i n a, length (relabel_node i n a) = S (length a).
Proof. intros i n a. unfold relabel_node. cbn [length]. rewrite map_length. reflexivity. Qed.

Lemma lift_extends : forall n' i a b, 2 <= n' -> extends_last n' a b ->
  extends_last (S n') (relabel_node i (S n') a) (relabel_node i (S n') b).
Proof.
  intros n' i a b Hn [[x ->]|[Hla [Hlb [_ [t ->]]]]].
  - left. exists (shift i (S n') x). apply relabel_app.
  - right. rewrite !relabel_length. split; [lia|]. split; [lia|]. split; [lia|].
    exists (map (shift i (S n')) t). apply relabel_app.
Qed.

Lemma lift_adj : forall n' i a b, 2 <= n' -> spec_adjacent_prop n' a b ->
  spec_adjacent_prop (S n') (relabel_node i (S n') a) (relabel_node i (S n') b).
Proof.
  intros n' i a b Hn [[l [x [y [r [-> ->]]]]]|[H|H]].
  - left. exists (i :: map (shift i (S n')) l), (shift i (S n') x), (shift i (S n') y), (map (shift i (S n')) r).
    unfold relabel_node. rewrite !map_app. cbn [map app]. split; reflexivity.
  - right. left. apply lift_extends; assumption.
  - right. right. apply lift_extends; assumption.
Qed.

(* ------------------------------------------------------------------ *)
(** * The invariant, and its preservation by the recursive step *)

Record graph_spec (n : nat) : Prop := mkGraphSpec {
  gs_nodup : NoDup (g_nodes (build_graph n));
  gs_nodes : forall k, In k (g_nodes (build_graph n)) <-> valid_node n k;
  gs_ends : forall a b, In (a, b) (g_edges (build_graph n)) ->
              In a (g_nodes (build_graph n)) /\ In b (g_nodes (build_graph n));
  gs_edges : forall a b, In a (g_nodes (build_graph n)) -> In b (g_nodes (build_graph n)) ->
              (has_edge (build_graph n) a b <-> spec_adjacent_prop n a b)
}.

Lemma graph_ok_spec : forall n, graph_ok n (build_graph n) = true -> graph_spec n.
Proof.
  intros n H. unfold graph_ok in H. apply andb_true_iff in H. destruct H as [H1 H2].
  destruct (nodes_ok_sound n _ H1) as [Hnd Hn]. destruct (edges_ok_sound n _ H2) as [He Hends].
  constructor; assumption.
Qed.

Section Step.
Variable m : nat.
Hypothesis IH : graph_spec (S (S m)).

Notation n' := (S (S m)).
Notation n := (S (S (S m))).
Notation P := (build_graph (S (S m))).
Notation G := (build_graph (S (S (S m)))).
Notation unsh i := (unshift i (S (S (S m)))).

Lemma step_nodes : forall k, In k (g_nodes G) <-> valid_node n k.
Proof.
  intros k. rewrite build_nodes_In. split.
  - intros [i [Hi [->|[k' [Hk' ->]]]]].
    + apply valid_single; lia.
    + apply valid_relabel; [exact Hi|]. apply (gs_nodes _ IH). exact Hk'.
  - intros Hv. destruct k as [|i k'].
    { destruct Hv as [_ [_ [Hl _]]]. cbn [length] in Hl. lia. }
    destruct k' as [|z k''].
    + exists i. split; [apply Hv; left; reflexivity|left; reflexivity].
    + assert (Hne : z :: k'' <> []) by discriminate.
      destruct (valid_tail n' i (z :: k'') Hne Hv) as [Hi [Hv' E]]. exists i. split; [exact Hi|].
      right. exists (map (unsh i) (z :: k'')). split; [apply (gs_nodes _ IH); exact Hv'|exact E].
Qed.

Lemma relabel_in_G : forall i k, 1 <= i <= n -> In k (g_nodes P) -> In (relabel_node i n k) (g_nodes G).
Proof.
  intros i k Hi Hk. apply build_nodes_In. exists i. split; [exact Hi|]. right. exists k. split; [exact Hk|reflexivity].
Qed.

Lemma corner_edge_ends : forall i a b, 1 <= i <= n -> corner_edge n P i a b ->
  In a (g_nodes G) /\ In b (g_nodes G).
Proof.
  intros i a b Hi [[a' [b' [He [-> ->]]]]|[-> [_ [k [Hk ->]]]]].
  - destruct (gs_ends _ IH a' b' He) as [Ha Hb]. split; apply relabel_in_G; assumption.
  - split; [apply relabel_in_G; assumption|]. apply build_nodes_In. exists i. split; [exact Hi|left; reflexivity].
Qed.

Lemma corner_edge_sound : forall i a b, 1 <= i <= n -> corner_edge n P i a b -> spec_adjacent_prop n a b.
Proof.
  intros i a b Hi [[a' [b' [He [-> ->]]]]|[-> [Hc [k [Hk ->]]]]].
  - apply lift_adj; [lia|]. destruct (gs_ends _ IH a' b' He) as [Ha Hb].
    apply (gs_edges _ IH a' b' Ha Hb). left. exact He.
  - right. right. apply (gs_nodes _ IH) in Hk. destruct Hk as [_ [_ [Hl Hne]]].
    destruct Hc as [Hc|Hc].
    + right. rewrite relabel_length. cbn [length]. split; [lia|]. split; [lia|]. split; [lia|].
      exists (map (shift i n) k). reflexivity.
    + left. rewrite relabel_length in Hc. destruct k as [|y [|y' k]]; cbn [length] in Hc; try lia.
      exists (shift i n y). reflexivity.
Qed.

Definition step_edge (a b : node) : Prop :=
  (exists i, 1 <= i <= n /\ (corner_edge n P i a b \/ corner_edge n P i b a)) \/
  In (a, b) (swaps_of (g_nodes G)) \/ In (b, a) (swaps_of (g_nodes G)).

Lemma step_edge_sym : forall a b, step_edge a b -> step_edge b a.
Proof.
  intros a b [[i [Hi [H|H]]]|[H|H]].
  - left. exists i. split; [exact Hi|right; exact H].
  - left. exists i. split; [exact Hi|left; exact H].
  - right. right. exact H.
  - right. left. exact H.
Qed.

Lemma step_ends : forall a b, In (a, b) (g_edges G) -> In a (g_nodes G) /\ In b (g_nodes G).
Proof.
  intros a b He. assert (H : has_edge G a b) by (left; exact He).
  apply build_has in H. destruct H as [[i [Hi [H|H]]]|[H|H]].
  - apply (corner_edge_ends i a b Hi H).
  - destruct (corner_edge_ends i b a Hi H) as [H1 H2]. split; assumption.
  - apply swaps_In in H. destruct H as [Ha [x [y [r [-> ->]]]]]. split; [exact Ha|].
    apply step_nodes. apply step_nodes in Ha. apply (valid_perm _ _ _ (perm_swap y x r) Ha).
  - apply swaps_In in H. destruct H as [Hb [x [y [r [-> ->]]]]]. split; [|exact Hb].
    apply step_nodes. apply step_nodes in Hb. apply (valid_perm _ _ _ (perm_swap y x r) Hb).
Qed.

Lemma lift_has : forall i a' b' a b, 1 <= i <= n -> has_edge P a' b' ->
  a = relabel_node i n a' -> b = relabel_node i n b' -> step_edge a b.
Proof.
  intros i a' b' a b Hi [He|He] Ea Eb; left; exists i; (split; [exact Hi|]).
  - left. left. exists a', b'. repeat split; assumption.
  - right. left. exists b', a'. repeat split; assumption.
Qed.

Lemma complete_swap : forall a b, valid_node n a -> valid_node n b -> adjacent_swap a b -> step_edge a b.
Proof.
  intros a b Ha Hb [l [x [y [r [-> ->]]]]]. destruct l as [|i l].
  - right. left. apply swaps_In. split; [apply step_nodes; exact Ha|]. exists x, y, r. split; reflexivity.
  - cbn [app] in Ha, Hb |- *.
    assert (Hne1 : l ++ x :: y :: r <> []) by (intros E; symmetry in E; exact (app_cons_not_nil _ _ _ E)).
    assert (Hne2 : l ++ y :: x :: r <> []) by (intros E; symmetry in E; exact (app_cons_not_nil _ _ _ E)).
    destruct (valid_tail n' i _ Hne1 Ha) as [Hi [Hva Ea]].
    destruct (valid_tail n' i _ Hne2 Hb) as [_ [Hvb Eb]].
    apply (lift_has i _ _ _ _ Hi) with (2 := Ea) (3 := Eb).
    apply (gs_edges _ IH); [apply (gs_nodes _ IH); exact Hva|apply (gs_nodes _ IH); exact Hvb|].
    left. rewrite !map_app. cbn [map]. exists (map (unsh i) l), (unsh i x), (unsh i y), (map (unsh i) r).
    split; reflexivity.
Qed.

Lemma complete_ext : forall a b, valid_node n a -> valid_node n b -> extends_last n a b -> step_edge a b.
Proof.
  intros a b Ha Hb Hext.
  assert (Hshape : exists t, t <> [] /\ b = a ++ t /\
                     ((exists x, t = [x]) \/ (length a = n - 2 /\ length b = n))).
  { destruct Hext as [[x ->]|[Hla [Hlb [_ [t ->]]]]].
    - exists [x]. split; [discriminate|]. split; [reflexivity|]. left. exists x. reflexivity.
    - exists t. split.
      + intros ->. rewrite app_nil_r in Hlb. lia.
      + split; [reflexivity|]. right. split; assumption. }
  destruct Hshape as [t [Hne [-> Hsh]]].
  destruct a as [|i a1].
  { destruct Ha as [_ [_ [Hl _]]]. cbn [length] in Hl. lia. }
  destruct a1 as [|z a2].
  - cbn [app] in Hb |- *. destruct (valid_tail n' i t Hne Hb) as [Hi [Hvb Eb]].
    left. exists i. split; [exact Hi|]. right. right. split; [reflexivity|]. split.
    + destruct Hsh as [[x ->]|[Hla _]]; [right; reflexivity|left; cbn [length] in Hla; lia].
    + exists (map (unsh i) t). split; [apply (gs_nodes _ IH); exact Hvb|exact Eb].
  - assert (Hne1 : z :: a2 <> []) by discriminate.
    assert (Hne2 : (z :: a2) ++ t <> []) by discriminate.
    cbn [app] in Hb. destruct (valid_tail n' i _ Hne1 Ha) as [Hi [Hva Ea]].
    destruct (valid_tail n' i _ Hne2 Hb) as [_ [Hvb Eb]].
    apply (lift_has i _ _ _ _ Hi) with (2 := Ea) (3 := Eb).
    apply (gs_edges _ IH); [apply (gs_nodes _ IH); exact Hva|apply (gs_nodes _ IH); exact Hvb|].
    right. left. rewrite map_app. destruct Hsh as [[x ->]|[Hla Hlb]].
    + left. exists (unsh i x). reflexivity.
    + right. rewrite app_length, !map_length. cbn [length] in Hla, Hlb. rewrite app_length in Hlb.
      cbn [length] in Hlb |- *. split; [lia|]. split; [lia|]. split; [lia|].
      exists (map (unsh i) t). reflexivity.
Qed.

Lemma step_edges : forall a b, In a (g_nodes G) -> In b (g_nodes G) ->
  (has_edge G a b <-> spec_adjacent_prop n a b).
Proof.
  intros a b Ha Hb. rewrite build_has. split.
  - intros [[i [Hi [H|H]]]|[H|H]].
    + apply (corner_edge_sound i a b Hi H).
    + apply spec_adj_sym. apply (corner_edge_sound i b a Hi H).
    + apply swaps_In in H. destruct H as [_ [x [y [r [-> ->]]]]]. left. exists [], x, y, r. split; reflexivity.
    + apply swaps_In in H. destruct H as [_ [x [y [r [-> ->]]]]]. left. exists [], y, x, r. split; reflexivity.
  - apply step_nodes in Ha. apply step_nodes in Hb. intros [H|[H|H]].
    + apply complete_swap; assumption.
    + apply complete_ext; assumption.
    + apply step_edge_sym. apply complete_ext; assumption.
Qed.

Lemma graph_spec_step : graph_spec n.
Proof.
  constructor.
  - apply build_nodes_NoDup.
  - exact step_nodes.
  - exact step_ends.
  - exact step_edges.
Qed.

End Step.

Theorem graph_spec_all : forall n, graph_spec n.
Proof.
  assert (H2 : forall m, graph_spec (S (S m))).
  { induction m as [|m IHm].
    - apply graph_ok_spec. exact graph_ok_2.
    - apply graph_spec_step. exact IHm. }
  intros [|[|m]].
  - apply graph_ok_spec. vm_compute. reflexivity.
  - apply graph_ok_spec. vm_compute. reflexivity.
  - apply H2.
Qed.

(* ------------------------------------------------------------------ *)
(** * The node and edge statements for every n *)

Theorem graph_nodes_all_n : forall n,
  (forall k, In k (g_nodes (build_graph n)) <-> valid_node n k) /\ NoDup (g_nodes (build_graph n)).
Proof. intros n. split; [apply (gs_nodes _ (graph_spec_all n))|apply (gs_nodup _ (graph_spec_all n))]. Qed.

Theorem graph_nodes_ge2 : forall n, 2 <= n ->
  (forall k, In k (g_nodes (build_graph n)) <-> valid_node n k) /\ NoDup (g_nodes (build_graph n)).
Proof. intros n _. apply graph_nodes_all_n. Qed.

Theorem graph_edges_all_n : forall n,
  (forall a b, In a (g_nodes (build_graph n)) -> In b (g_nodes (build_graph n)) ->
     (has_edge (build_graph n) a b <-> spec_adjacent_prop n a b)) /\
  (forall a b, In (a, b) (g_edges (build_graph n)) ->
     In a (g_nodes (build_graph n)) /\ In b (g_nodes (build_graph n))).
Proof. intros n. split; [apply (gs_edges _ (graph_spec_all n))|apply (gs_ends _ (graph_spec_all n))]. Qed.

Theorem graph_edges_ge2 : forall n, 2 <= n ->
  (forall a b, In a (g_nodes (build_graph n)) -> In b (g_nodes (build_graph n)) ->
     (has_edge (build_graph n) a b <-> spec_adjacent_prop n a b)) /\
  (forall a b, In (a, b) (g_edges (build_graph n)) ->
     In a (g_nodes (build_graph n)) /\ In b (g_nodes (build_graph n))).
Proof. intros n _. apply graph_edges_all_n. Qed.

(* the same, phrased on rankings rather than on membership in the node list *)
Theorem graph_edges_valid : forall n a b,
  (valid_node n a -> valid_node n b ->
     (has_edge (build_graph n) a b <-> spec_adjacent_prop n a b)) /\
  (has_edge (build_graph n) a b -> valid_node n a /\ valid_node n b).
Proof.
  intros n a b. pose proof (graph_spec_all n) as S. split.
  - intros Ha Hb. apply (gs_edges _ S); apply (gs_nodes _ S); assumption.
  - intros [H|H]; destruct (gs_ends _ S _ _ H) as [H1 H2]; split; apply (gs_nodes _ S); assumption.
Qed.

Theorem graph_edges_bool_all_n : forall n a b,
  In a (g_nodes (build_graph n)) -> In b (g_nodes (build_graph n)) ->
  (has_edge (build_graph n) a b <-> spec_adjacent n a b = true).
Proof. intros n a b Ha Hb. rewrite spec_adjacent_spec. apply (graph_edges_all_n n); assumption. Qed.

(* the base cases of the construction *)
Theorem graph_small : build_graph 0 = mkGraph [] [] /\ build_graph 1 = mkGraph [[1]] [] /\
  build_graph 2 = mkGraph [[1; 2]; [2; 1]] [([1; 2], [2; 1])].
Proof. repeat split. Qed.

(* ------------------------------------------------------------------ *)
(** * Loading a profile *)

Section LoadFold2.
Variable nodes : list node.
Let step := fun (acc : list (node * Q)) (kw : node * Q) =>
  if existsb (node_eqb (fst kw)) nodes then nw_add acc (fst kw) (snd kw) else acc.

Lemma load_fold_filter : forall ks acc,
  fold_left step ks acc = fold_left step (filter (fun kw => existsb (node_eqb (fst kw)) nodes) ks) acc.
Proof.
  induction ks as [|kw ks IH]; intros acc; cbn [fold_left filter]; [reflexivity|].
  unfold step at 2. destruct (existsb (node_eqb (fst kw)) nodes) eqn:E.
  - cbn [fold_left]. unfold step at 3. rewrite E. apply IH.
  - apply IH.
Qed.
End LoadFold2.

Section WithCand.
Variable cand : Type.
Variable ceqb : cand -> cand -> bool.
Hypothesis ceqb_spec : forall a b, reflect (a = b) (ceqb a b).

Notation ballot := (ballot cand).
Notation profile := (profile cand).

Theorem load_total_all_n : forall p : profile,
  NoDup (cands p) -> Forall (linear_ballot cand (cands p)) (ballots p) ->
  exists ws, node_weights cand ceqb p true = inl ws /\
    NoDup (map fst ws) /\
    (qsum (map snd ws) == total_wt cand (ballots p))%Q /\
    (forall k, (weight_at ws k ==
                qsum (map wt (filter (fun b => node_eqb (spec_ballot_node cand ceqb (cands p) b) k)
                                     (ballots p))))%Q) /\
    (forall k, In k (map fst ws) ->
       exists b, In b (ballots p) /\ k = spec_ballot_node cand ceqb (cands p) b).
Proof.
  intros p Hcs Hbs. apply (load_total_gen cand ceqb ceqb_spec); try assumption.
  intros k Hk. apply (graph_nodes_all_n (length (cands p))). exact Hk.
Qed.

Lemma total_wt_split : forall (f : ballot -> bool) (bs : list ballot),
  (total_wt cand bs == total_wt cand (filter f bs) + total_wt cand (filter (fun b => negb (f b)) bs))%Q.
Proof.
  intros f bs. unfold total_wt. induction bs as [|b bs IH]; cbn [filter map].
  - rewrite qsum_nil. lra.
  - rewrite qsum_cons, IH. destruct (f b); cbn [negb map]; rewrite qsum_cons; lra.
Qed.

Lemma ballot_node_nofix : forall cs b, linear_ballot cand cs b ->
  ballot_node cand ceqb cs false b = inl (ballot_positions cand ceqb cs b).
Proof.
  intros cs b [Hne [Hsingle [Hnd Hincl]]]. unfold ballot_node.
  destruct (rk b) as [|s r] eqn:Er; [contradiction Hne; reflexivity|].
  assert (Hties : existsb (fun s0 => Nat.ltb 1 (length s0)) (s :: r) = false).
  { destruct (existsb (fun s0 => Nat.ltb 1 (length s0)) (s :: r)) eqn:E; [|reflexivity].
    apply existsb_exists in E. destruct E as [g [Hg Hlt]]. rewrite Forall_forall in Hsingle.
    rewrite (Hsingle g Hg) in Hlt. discriminate. }
  rewrite Hties.
  rewrite (rmap_total _ _ _ (fun c => pos_of cand ceqb c cs) (flat cand (s :: r))).
  - unfold rbind. rewrite andb_false_r. unfold ballot_positions. rewrite Er. reflexivity.
  - intros c Hc. rewrite (index_of_In cand ceqb ceqb_spec c cs); [reflexivity|]. apply Hincl. exact Hc.
Qed.

Lemma positions_in_graph : forall cs b, NoDup cs -> linear_ballot cand cs b ->
  existsb (node_eqb (ballot_positions cand ceqb cs b)) (g_nodes (build_graph (length cs)))
  = negb (one_short cand cs b).
Proof.
  intros cs b Hcs Hb. destruct (nums_of_props cand ceqb ceqb_spec cs b Hcs Hb) as [Hnd [Hr [Hlen _]]].
  change (nums_of cand ceqb cs b) with (ballot_positions cand ceqb cs b) in *.
  unfold one_short. rewrite <- (map_length (fun c => pos_of cand ceqb c cs) (flat cand (rk b))).
  change (map (fun c => pos_of cand ceqb c cs) (flat cand (rk b))) with (ballot_positions cand ceqb cs b).
  destruct (Nat.eqb_spec (length (ballot_positions cand ceqb cs b)) (length cs - 1)) as [E|E]; cbn [negb].
  - destruct (existsb (node_eqb (ballot_positions cand ceqb cs b)) (g_nodes (build_graph (length cs)))) eqn:Ex;
      [|reflexivity].
    apply existsb_node_In in Ex. apply (graph_nodes_all_n (length cs)) in Ex.
    destruct Ex as [_ [_ [_ Hne]]]. contradiction.
  - apply existsb_node_In. apply (graph_nodes_all_n (length cs)). unfold valid_node.
    split; [exact Hnd|]. split; [exact Hr|]. split; [exact Hlen|exact E].
Qed.

Theorem load_no_fix_short : forall p : profile,
  NoDup (cands p) -> Forall (linear_ballot cand (cands p)) (ballots p) ->
  exists ws, node_weights cand ceqb p false = inl ws /\
    NoDup (map fst ws) /\
    (qsum (map snd ws) ==
       total_wt cand (filter (fun b => negb (one_short cand (cands p) b)) (ballots p)))%Q /\
    (qsum (map snd ws) ==
       total_wt cand (ballots p) - total_wt cand (filter (one_short cand (cands p)) (ballots p)))%Q /\
    (forall k, (weight_at ws k ==
                qsum (map wt (filter (fun b => node_eqb (ballot_positions cand ceqb (cands p) b) k)
                                     (filter (fun b => negb (one_short cand (cands p) b)) (ballots p)))))%Q) /\
    (forall k, In k (map fst ws) ->
       exists b, In b (ballots p) /\ one_short cand (cands p) b = false /\
                 k = ballot_positions cand ceqb (cands p) b).
Proof.
  intros p Hcs Hbs. unfold node_weights. rewrite Forall_forall in Hbs.
  rewrite (rmap_total _ _ _ (fun b => (ballot_positions cand ceqb (cands p) b, wt b)) (ballots p)).
  2:{ intros b Hb. rewrite (ballot_node_nofix _ b (Hbs b Hb)). reflexivity. }
  unfold rbind. cbv zeta. eexists. split; [reflexivity|].
  set (nodes := g_nodes (build_graph (length (cands p)))).
  set (g := fun b : ballot => (ballot_positions cand ceqb (cands p) b, wt b)).
  set (keep := fun b : ballot => negb (one_short cand (cands p) b)).
  rewrite (load_fold_filter nodes).
  assert (Hf : filter (fun kw : node * Q => existsb (node_eqb (fst kw)) nodes) (map g (ballots p))
               = map g (filter keep (ballots p))).
  { rewrite filter_map_comm. f_equal. apply filter_ext_in. intros b Hb. unfold g, keep. cbn [fst].
    apply positions_in_graph; [exact Hcs|apply Hbs; exact Hb]. }
  rewrite Hf. set (ks := map g (filter keep (ballots p))).
  assert (Hin : forall kw, In kw ks -> In (fst kw) nodes).
  { intros kw Hkw. apply in_map_iff in Hkw. destruct Hkw as [b [<- Hb]]. apply filter_In in Hb.
    destruct Hb as [Hb Hk]. unfold g. cbn [fst]. apply existsb_node_In.
    rewrite positions_in_graph; [exact Hk|exact Hcs|apply Hbs; exact Hb]. }
  split; [apply load_fold_NoDup; constructor|].
  assert (Hsum : (qsum (map snd (fold_left
            (fun (acc : list (node * Q)) (kw : node * Q) =>
               if existsb (node_eqb (fst kw)) nodes then nw_add acc (fst kw) (snd kw) else acc) ks []))
          == total_wt cand (filter keep (ballots p)))%Q).
  { rewrite (load_fold_sum nodes ks [] Hin). cbn [map]. rewrite qsum_nil. unfold ks, g.
    rewrite map_map. cbn [snd]. unfold Core.total_wt. rewrite Qplus_0_l. reflexivity. }
  split; [exact Hsum|]. split.
  - rewrite Hsum. rewrite (total_wt_split (one_short cand (cands p)) (ballots p)). fold keep. lra.
  - split.
    + intros k. rewrite (load_fold_weight nodes ks [] k Hin). unfold weight_at at 1. cbn [find].
      unfold ks. rewrite filter_map_comm, map_map. unfold g. cbn [fst snd]. rewrite Qplus_0_l. reflexivity.
    + intros k Hk. apply load_fold_keys_inv in Hk. destruct Hk as [[]|Hk]. unfold ks in Hk.
      rewrite map_map in Hk. unfold g in Hk. cbn [fst] in Hk. apply in_map_iff in Hk.
      destruct Hk as [b [<- Hb]]. apply filter_In in Hb. destruct Hb as [Hb Hk]. exists b.
      split; [exact Hb|]. split; [|reflexivity]. unfold keep in Hk. apply negb_true_iff in Hk. exact Hk.
Qed.

End WithCand.
