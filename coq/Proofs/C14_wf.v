(* Proofs/C14_wf.v — property C14: the per-ballot kernels and the common tails of
   Model/Generators.v return well-formed ballots / profiles.  Candidates are numbered
   ([pcand] = positive, equality [Pos.eqb]). *)
From VK Require Import Base Core GenValidation PrefInterval Generators Content GenSpec.
From VK Require Import Lib_rk Lib_sets Lib_content C11_condense C11_profile Lib_condense C12_expand C15_bt.
From Coq Require Import Permutation Lia Lqa Setoid Morphisms Sorting.Sorted.

Local Notation cbs := (condense_bs pcand Pos.eqb).
Local Notation ccast := (cast_cands pcand Pos.eqb).
Local Notation wtofP := (wtof pcand Pos.eqb).
Local Notation sameP := (same_content pcand Pos.eqb).
Local Notation distinctP := (distinct_contents pcand Pos.eqb).
Local Notation twt := (total_wt pcand).

(* ------------------------------------------------------------------ *)
(** * Boolean set tests on numbered candidates *)

Lemma pmem_In : forall c l, pmem c l = true <-> In c l.
Proof.
  intros c l. unfold pmem. rewrite existsb_exists. split.
  - intros (x & Hx & E). apply Pos.eqb_eq in E. subst x. exact Hx.
  - intros H. exists c. split; [exact H|apply Pos.eqb_refl].
Qed.

Lemma pmem_false : forall c l, pmem c l = false <-> ~ In c l.
Proof.
  intros c l. rewrite <- pmem_In. destruct (pmem c l); split; intros H; try reflexivity;
    try discriminate; try (intros H'; discriminate). exfalso. apply H. reflexivity.
Qed.

Lemma pnodup_NoDup : forall l, pnodup l = true <-> NoDup l.
Proof.
  induction l as [|x l IH]; cbn [pnodup].
  - split; [constructor|reflexivity].
  - rewrite andb_true_iff, negb_true_iff, pmem_false, IH. split.
    + intros [H1 H2]. constructor; assumption.
    + intros H. inversion H as [|y l' H1 H2]; subst. split; assumption.
Qed.

Lemma psubset_incl : forall a b, psubset a b = true <-> incl a b.
Proof.
  intros a b. unfold psubset. rewrite forallb_forall. unfold incl. split.
  - intros H c Hc. apply pmem_In. apply H. exact Hc.
  - intros H c Hc. apply pmem_In. apply H. exact Hc.
Qed.

Lemma valid_sample_iff : forall pop k r,
  valid_sample pop k r = true <-> length r = k /\ NoDup r /\ incl r pop.
Proof.
  intros pop k r. unfold valid_sample.
  rewrite !andb_true_iff, Nat.eqb_eq, pnodup_NoDup, psubset_incl. tauto.
Qed.

Lemma valid_iid_iff : forall pop k r,
  valid_iid pop k r = true <-> length r = k /\ incl r pop.
Proof.
  intros pop k r. unfold valid_iid. rewrite andb_true_iff, Nat.eqb_eq, psubset_incl. tauto.
Qed.

(* a duplicate-free list inside a duplicate-free list of the same length is a rearrangement *)
Lemma NoDup_incl_length_perm : forall (r pop : list pcand),
  NoDup r -> NoDup pop -> incl r pop -> length r = length pop -> Permutation r pop.
Proof.
  intros r pop Hr Hp Hi Hl. apply NoDup_Permutation_bis; try assumption. lia.
Qed.

Lemma list_peqb_true_iff : forall a b, list_peqb a b = true <-> a = b.
Proof.
  intros a b. unfold list_peqb. destruct (list_eq_dec Pos.eq_dec a b) as [E|E].
  - split; [intros _; exact E|reflexivity].
  - split; [discriminate|intros H; contradiction].
Qed.

(* ------------------------------------------------------------------ *)
(** * Whole numbers *)

Definition whole (q : Q) : Prop := exists n : nat, q == Qnat n.

Lemma whole_0 : whole 0.
Proof. exists O. reflexivity. Qed.

Lemma whole_plus : forall a b, whole a -> whole b -> whole (a + b).
Proof.
  intros a b [n Hn] [m Hm]. exists (n + m)%nat. rewrite Qnat_plus, Hn, Hm. reflexivity.
Qed.

Lemma whole_pos_whole : forall q, whole_pos q -> whole q.
Proof. intros q (n & _ & H). exists n. exact H. Qed.

Lemma whole_pos_intro : forall q, whole q -> 0 < q -> whole_pos q.
Proof.
  intros q [n Hn] Hq. exists n. split; [|exact Hn].
  destruct n as [|n]; [|lia]. rewrite Hn in Hq. exfalso. apply (Qlt_irrefl 0). exact Hq.
Qed.

Lemma whole_pos_pos : forall q, whole_pos q -> 0 < q.
Proof. intros q (n & Hn & H). rewrite H. apply Qnat_pos. exact Hn. Qed.

Lemma whole_pos_1 : forall q, q == 1 -> whole_pos q.
Proof. intros q H. exists 1%nat. split; [lia|]. rewrite H. reflexivity. Qed.

Lemma whole_pos_Qnat : forall n, (0 < n)%nat -> whole_pos (Qnat n).
Proof. intros n H. exists n. split; [exact H|reflexivity]. Qed.

(* ------------------------------------------------------------------ *)
(** * A8. finish_blocs : condense per bloc, add up *)

Lemma bloc_profile_total : forall pool,
  bloc_profile pool = inl (mkProfile (cbs pool) (ccast pool)).
Proof. intros pool. reflexivity. Qed.

Definition by_bloc_of (pools : list (bloc * list gballot)) : list (bloc * gprofile) :=
  map (fun bp => (fst bp, mkProfile (cbs (snd bp)) (ccast (snd bp)))) pools.

Lemma rmap_by_bloc : forall pools,
  rmap (fun bp : bloc * list gballot => let! p := bloc_profile (snd bp) in ok (fst bp, p)) pools
  = inl (by_bloc_of pools).
Proof.
  intros pools. unfold by_bloc_of. apply rmap_total. intros bp _.
  rewrite bloc_profile_total. reflexivity.
Qed.

Fixpoint agg_of (a0 : gprofile) (bb : list (bloc * gprofile)) : gprofile :=
  match bb with
  | [] => a0
  | x :: rest =>
      agg_of (mkProfile (ballots a0 ++ ballots (snd x)) (ccast (ballots a0 ++ ballots (snd x)))) rest
  end.

Lemma fold_add_total : forall bb a0,
  fold_left (fun (acc : res gprofile) (bp : bloc * gprofile) =>
               let! a := acc in profile_add pcand Pos.eqb a (snd bp)) bb (ok a0)
  = ok (agg_of a0 bb).
Proof.
  induction bb as [|x bb IH]; intros a0; cbn [fold_left agg_of].
  - reflexivity.
  - unfold ok at 1. cbn [rbind]. rewrite (profile_add_total pcand Pos.eqb). apply IH.
Qed.

Lemma agg_of_ballots : forall bb a0,
  ballots (agg_of a0 bb) = ballots a0 ++ concat (map (fun bq => ballots (snd bq)) bb).
Proof.
  induction bb as [|x bb IH]; intros a0; cbn [agg_of map concat].
  - rewrite app_nil_r. reflexivity.
  - rewrite IH. cbn [ballots]. rewrite app_assoc. reflexivity.
Qed.

Lemma agg_of_cands : forall bb a0, bb <> [] ->
  cands (agg_of a0 bb) = ccast (ballots (agg_of a0 bb)).
Proof.
  induction bb as [|x bb IH]; intros a0 Hne; [contradiction|].
  cbn [agg_of]. destruct bb as [|y bb].
  - cbn [agg_of cands ballots]. reflexivity.
  - apply IH. discriminate.
Qed.

Lemma finish_blocs_total : forall pools,
  finish_blocs pools = inl (by_bloc_of pools, agg_of (mkProfile [] []) (by_bloc_of pools)).
Proof.
  intros pools. unfold finish_blocs. rewrite rmap_by_bloc. cbn [rbind].
  change (mk_profile pcand Pos.eqb [] []) with (@inl gprofile exn (mkProfile [] [])).
  cbn [rbind]. fold (@ok gprofile (mkProfile [] [])). rewrite fold_add_total. reflexivity.
Qed.

Theorem finish_blocs_never_errors : forall pools, exists r, finish_blocs pools = inl r.
Proof. intros pools. eexists. apply finish_blocs_total. Qed.

Lemma by_bloc_of_Forall2 : forall pools,
  Forall2 (fun (bp : bloc * list gballot) (bq : bloc * gprofile) =>
             fst bq = fst bp /\ ballots (snd bq) = cbs (snd bp) /\ cands (snd bq) = ccast (snd bp))
          pools (by_bloc_of pools).
Proof.
  induction pools as [|bp pools IH]; cbn [by_bloc_of map]; constructor.
  - cbn [fst snd ballots cands]. repeat split.
  - exact IH.
Qed.

Theorem finish_blocs_ok : forall pools by_bloc agg,
  finish_blocs pools = inl (by_bloc, agg) ->
  Forall2 (fun (bp : bloc * list gballot) (bq : bloc * gprofile) =>
             fst bq = fst bp /\ ballots (snd bq) = cbs (snd bp) /\ cands (snd bq) = ccast (snd bp))
          pools by_bloc /\
  ballots agg = concat (map (fun bq => ballots (snd bq)) by_bloc) /\
  (by_bloc <> [] -> cands agg = ccast (ballots agg)).
Proof.
  intros pools by_bloc agg H. rewrite finish_blocs_total in H. injection H as <- <-.
  split; [apply by_bloc_of_Forall2|]. split.
  - rewrite agg_of_ballots. reflexivity.
  - apply agg_of_cands.
Qed.

(* condensed ballots of a pool with positive whole weights have positive whole weights *)
Lemma wtof_whole : forall k l, (forall b, In b l -> whole (wt b)) -> whole (wtofP k l).
Proof.
  intros k l. induction l as [|x l IH]; intros H.
  - rewrite (wtof_nil pcand Pos.eqb). apply whole_0.
  - rewrite (wtof_cons pcand Pos.eqb). destruct (sameP k x).
    + apply whole_plus; [apply H; left; reflexivity|]. apply IH. intros b Hb. apply H. right. exact Hb.
    + apply IH. intros b Hb. apply H. right. exact Hb.
Qed.

Lemma whole_morph : forall a b, a == b -> whole a -> whole b.
Proof. intros a b E [n Hn]. exists n. rewrite <- E. exact Hn. Qed.

Lemma whole_pos_morph : forall a b, a == b -> whole_pos a -> whole_pos b.
Proof. intros a b E (n & Hn & H). exists n. split; [exact Hn|]. rewrite <- E. exact H. Qed.

Lemma condense_whole_pos : forall pool,
  whole_pos_weights pool -> whole_pos_weights (cbs pool).
Proof.
  intros pool Hw x Hx.
  pose proof (condense_distinct pcand Pos.eqb pool) as Hd.
  pose proof (distinct_wtof pcand Pos.eqb Pos.eqb_spec _ Hd x x Hx
                (same_refl pcand Pos.eqb Pos.eqb_spec x)) as E1.
  pose proof (condense_weights pcand Pos.eqb Pos.eqb_spec x pool) as E2.
  assert (E : wtofP x pool == wt x) by (rewrite <- E2; exact E1).
  apply (whole_pos_morph _ _ E). apply whole_pos_intro.
  - apply wtof_whole. intros b Hb. apply whole_pos_whole. apply Hw. exact Hb.
  - apply (wtof_pos pcand Pos.eqb).
    + intros b Hb. apply whole_pos_pos. apply Hw. exact Hb.
    + destruct (condense_no_invented pcand Pos.eqb pool x Hx) as (y & Hy & Hr & Hs).
      exists y. split; [exact Hy|]. apply (kext_same pcand Pos.eqb Pos.eqb_spec). split; assumption.
Qed.

Lemma total_wt_unit : forall pool : list gballot,
  (forall b, In b pool -> wt b == 1) -> twt pool == Qnat (length pool).
Proof.
  induction pool as [|b pool IH]; intros H.
  - reflexivity.
  - unfold total_wt in *. cbn [map length]. rewrite qsum_cons, Qnat_S, IH.
    + rewrite (H b); [ring|left; reflexivity].
    + intros b' Hb'. apply H. right. exact Hb'.
Qed.

Theorem by_bloc_condensed : forall pools by_bloc agg,
  finish_blocs pools = inl (by_bloc, agg) ->
  Forall2 (fun (bp : bloc * list gballot) (bq : bloc * gprofile) =>
     fst bq = fst bp /\
     (forall k, wtofP k (ballots (snd bq)) == wtofP k (snd bp)) /\
     distinctP (ballots (snd bq)) /\
     (forall x, In x (ballots (snd bq)) -> exists y, In y (snd bp) /\ rk x = rk y /\ sc x = sc y) /\
     (forall y, In y (snd bp) -> exists x, In x (ballots (snd bq)) /\ sameP x y = true) /\
     twt (ballots (snd bq)) == twt (snd bp) /\
     (whole_pos_weights (snd bp) -> whole_pos_weights (ballots (snd bq))) /\
     ((forall b, In b (snd bp) -> wt b == 1) -> twt (ballots (snd bq)) == Qnat (length (snd bp))))
    pools by_bloc.
Proof.
  intros pools by_bloc agg H. apply finish_blocs_ok in H. destruct H as (HF & _ & _).
  induction HF as [|bp bq pools by_bloc (Hn & Hb & _) _ IH]; constructor; [|exact IH].
  rewrite Hb. split; [exact Hn|].
  split; [intros k; apply (condense_weights pcand Pos.eqb Pos.eqb_spec)|].
  split; [apply condense_distinct|].
  split; [apply condense_no_invented|].
  split; [apply (condense_covers pcand Pos.eqb Pos.eqb_spec)|].
  split; [apply condense_bs_total_wt|].
  split; [apply condense_whole_pos|].
  intros H1. rewrite condense_bs_total_wt. apply total_wt_unit. exact H1.
Qed.

Lemma wtof_concat : forall k (L : list (list gballot)),
  wtofP k (concat L) == qsum (map (wtofP k) L).
Proof.
  intros k L. induction L as [|l L IH]; cbn [concat map].
  - reflexivity.
  - rewrite (wtof_app pcand Pos.eqb), IH, qsum_cons. reflexivity.
Qed.

Lemma total_wt_concat : forall L : list (list gballot),
  twt (concat L) == qsum (map twt L).
Proof.
  induction L as [|l L IH]; cbn [concat map].
  - reflexivity.
  - rewrite (total_wt_app pcand), IH, qsum_cons. reflexivity.
Qed.

Theorem by_bloc_sum : forall pools by_bloc agg,
  finish_blocs pools = inl (by_bloc, agg) ->
  forall k,
    wtofP k (ballots agg) == qsum (map (fun bq => wtofP k (ballots (snd bq))) by_bloc) /\
    wtofP k (ballots agg) == qsum (map (fun bp => wtofP k (snd bp)) pools).
Proof.
  intros pools by_bloc agg H k. rewrite finish_blocs_total in H. injection H as <- <-.
  rewrite agg_of_ballots. cbn [ballots app]. rewrite wtof_concat, map_map.
  split; [reflexivity|]. unfold by_bloc_of. rewrite map_map. cbn [snd ballots].
  apply qsum_map_ext_in. intros bp _. apply (condense_weights pcand Pos.eqb Pos.eqb_spec).
Qed.

Lemma qsum_map_Qnat_length : forall {A} (f : A -> nat) (l : list A),
  qsum (map (fun a => Qnat (f a)) l) == Qnat (list_sum (map f l)).
Proof.
  intros A f l. induction l as [|a l IH]; cbn [map list_sum].
  - reflexivity.
  - rewrite qsum_cons, IH. symmetry. apply Qnat_plus.
Qed.

Theorem finish_total : forall pools by_bloc agg,
  finish_blocs pools = inl (by_bloc, agg) ->
  twt (ballots agg) == qsum (map (fun bq => twt (ballots (snd bq))) by_bloc) /\
  twt (ballots agg) == qsum (map (fun bp => twt (snd bp)) pools) /\
  ((forall bp b, In bp pools -> In b (snd bp) -> wt b == 1) ->
   twt (ballots agg) == Qnat (list_sum (map (fun bp => length (snd bp)) pools))).
Proof.
  intros pools by_bloc agg H. rewrite finish_blocs_total in H. injection H as <- <-.
  rewrite agg_of_ballots. cbn [ballots app]. rewrite total_wt_concat, map_map.
  assert (E : qsum (map (fun x : bloc * gprofile => twt (ballots (snd x))) (by_bloc_of pools))
              == qsum (map (fun bp => twt (snd bp)) pools)).
  { unfold by_bloc_of. rewrite map_map. cbn [snd ballots].
    apply qsum_map_ext_in. intros bp _. apply condense_bs_total_wt. }
  split; [reflexivity|]. split; [exact E|].
  intros H1. rewrite E, <- qsum_map_Qnat_length. apply qsum_map_ext_in.
  intros bp Hbp. apply total_wt_unit. intros b Hb. apply (H1 bp b Hbp Hb).
Qed.

Theorem finish_integral_positive : forall pools by_bloc agg,
  finish_blocs pools = inl (by_bloc, agg) ->
  (forall bp, In bp pools -> whole_pos_weights (snd bp)) ->
  whole_pos_weights (ballots agg) /\
  (forall bq, In bq by_bloc -> whole_pos_weights (ballots (snd bq))).
Proof.
  intros pools by_bloc agg H Hw. rewrite finish_blocs_total in H. injection H as <- <-.
  assert (Hb : forall bq, In bq (by_bloc_of pools) -> whole_pos_weights (ballots (snd bq))).
  { intros bq Hbq. unfold by_bloc_of in Hbq. apply in_map_iff in Hbq.
    destruct Hbq as (bp & <- & Hbp). cbn [snd ballots]. apply condense_whole_pos. apply Hw. exact Hbp. }
  split; [|exact Hb].
  intros b Hin. rewrite agg_of_ballots in Hin. cbn [ballots app] in Hin.
  apply in_concat in Hin. destruct Hin as (l & Hl & Hbl). apply in_map_iff in Hl.
  destruct Hl as (bq & <- & Hbq). apply (Hb bq Hbq). exact Hbl.
Qed.
