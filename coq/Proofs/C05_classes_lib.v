(* Proofs/C05_classes_lib.v — C05: what happens to a score election AFTER validation, without
   the assumption that rated ballots carry no ranking.

   [run_one_shot SKBallotScores] scores the profile, elects the top m, removes the winners from
   the profile ([remove_cand_prof ... true false]) and scores the new profile.  The last step
   raises TypeError exactly when a ballot of positive weight has lost every scored candidate but
   still ranks somebody who was not elected ([stranded]): such a ballot survives the removal
   with an empty score map.  Recorded finding: score-rule-mixed-ballot-typeerror. *)
From VK Require Import Base Core STV Pairwise Rules PV Election.
From VK.Spec Require Import ScoreSpec EditSpec RatingSpec Anon TieSpec RunSpec OneShotSpec Content.
From VK.Proofs Require Import Lib_sets Lib_content C11_condense C12_edit C20_validation C05_rating
  Elect C01_lib C06_condo.
From Coq Require Import Permutation Lia Lqa.

Section ClassesLib.
Variable cand : Type.
Variable ceqb : cand -> cand -> bool.
Hypothesis ceqb_spec : forall a b, reflect (a = b) (ceqb a b).

Notation cset := (cset cand).
Notation ranking := (ranking cand).
Notation ballot := (ballot cand).
Notation profile := (profile cand).
Notation scores := (scores cand).
Notation estate := (estate cand).
Notation mstate := (mstate cand).
Notation flat := (flat cand).
Notation strip := (strip cand ceqb).
Notation strip_scores := (strip_scores cand ceqb).
Notation scrub := (scrub cand ceqb).
Notation remove_cand_bs := (remove_cand_bs cand ceqb).
Notation remove_cand_prof := (remove_cand_prof cand ceqb).
Notation score_from_scores := (score_from_scores cand ceqb).
Notation score_to_ranking := (score_to_ranking cand).
Notation elect_top_m := (elect_top_m cand ceqb).
Notation run_one_shot := (run_one_shot cand ceqb).
Notation run_rating := (run_rating cand ceqb).
Notation score_ballot_ok := (score_ballot_ok cand).
Notation score_ballot_bad := (score_ballot_bad cand).
Notation score_total := (score_total cand ceqb).
Notation totals := (totals cand ceqb).
Notation no_group := (no_group cand).
Notation straddles_seat := (straddles_seat cand).

(* a ballot of positive weight all of whose scored candidates are in W while its ranking still
   names somebody outside W *)
Definition stranded (W : cset) (b : ballot) : Prop :=
  0 < wt b /\ (forall c, In c (map fst (sc b)) -> In c W) /\
  exists c, In c (flat (rk b)) /\ ~ In c W.

(* every scored candidate is a candidate of the profile *)
Definition known (p : profile) : Prop :=
  forall b, In b (ballots p) -> incl (map fst (sc b)) (cands p).

(* every ranked candidate of a ballot is also scored by it (in particular: no ranking at all) *)
Definition covered (p : profile) : Prop :=
  forall b, In b (ballots p) -> incl (flat (rk b)) (map fst (sc b)).

Definition plain_tb (tb : option tb_kind) : Prop :=
  tb = None \/ tb = Some TBRandom \/ tb = Some TBInvalid.

(* ------------------------------------------------------------------ *)
(** * strip / strip_scores *)

Lemma strip_scores_nil_iff : forall W (d : scores),
  strip_scores W d = [] <-> forall c, In c (map fst d) -> In c W.
Proof.
  intros W d. split.
  - intros H c Hc. apply in_map_iff in Hc. destruct Hc as [[c' q] [E Hin]]. cbn [fst] in E. subst c'.
    destruct (memb cand ceqb c W) eqn:Hm; [apply (memb_In cand ceqb ceqb_spec); exact Hm|].
    exfalso. assert (Hx : In (c, q) (strip_scores W d)).
    { unfold Core.strip_scores. apply filter_In. split; [exact Hin|]. cbn [fst]. rewrite Hm. reflexivity. }
    rewrite H in Hx. destruct Hx.
  - intros H. destruct (strip_scores W d) as [|[c q] l] eqn:E; [reflexivity|]. exfalso.
    assert (Hin : In (c, q) (strip_scores W d)) by (rewrite E; left; reflexivity).
    unfold Core.strip_scores in Hin. apply filter_In in Hin. destruct Hin as [Hin Hm]. cbn [fst] in Hm.
    assert (HW : In c W). { apply H. apply in_map_iff. exists (c, q). split; [reflexivity|exact Hin]. }
    apply (memb_In cand ceqb ceqb_spec) in HW. rewrite HW in Hm. discriminate.
Qed.

Lemma strip_nonnil_iff : forall W (r : ranking),
  strip W r <> [] <-> exists c, In c (flat r) /\ ~ In c W.
Proof.
  intros W r. split.
  - intros Hne. pose proof (strip_no_empty cand ceqb W r) as Hg.
    destruct (strip W r) as [|g r'] eqn:E; [contradiction Hne; reflexivity|].
    inversion Hg as [|x l Hgne _]; subst. destruct g as [|c g]; [contradiction Hgne; reflexivity|].
    exists c. apply (strip_keeps cand ceqb ceqb_spec W r c). rewrite E, (flat_cons cand). left. reflexivity.
  - intros [c Hc] E. apply (strip_keeps cand ceqb ceqb_spec W r c) in Hc. rewrite E in Hc. destruct Hc.
Qed.

(* ------------------------------------------------------------------ *)
(** * the ballots left after removing W *)

Lemma empty_sc_bool : forall b : ballot, negb (nonempty (sc b)) = true <-> sc b = [].
Proof. intros b. destruct (sc b); cbn; split; intros H; try reflexivity; discriminate. Qed.

Lemma removed_unscored_iff : forall W (bs : list ballot),
  existsb (fun b => negb (nonempty (sc b))) (remove_cand_bs W true false bs) = true <->
  exists b, In b bs /\ stranded W b.
Proof.
  intros W bs. rewrite existsb_exists. unfold Core.remove_cand_bs. split.
  - intros [k [Hk Hsc]]. apply empty_sc_bool in Hsc.
    destruct (condense_no_invented cand ceqb _ k Hk) as [y [Hy [_ Hscy]]].
    apply filter_In in Hy. destruct Hy as [Hy Hpos]. apply in_map_iff in Hy. destruct Hy as [b [<- Hb]].
    rewrite (scrub_pos cand ceqb) in Hpos. apply andb_true_iff in Hpos. destruct Hpos as [Hw Hlive].
    apply (pos_wt_iff cand) in Hw.
    destruct (scrub_spec cand ceqb W b) as [_ [Hsc' _]].
    assert (Hnil : strip_scores W (sc b) = []) by congruence.
    rewrite Hnil in Hlive. cbn [nonempty] in Hlive. rewrite orb_false_r in Hlive.
    exists b. split; [exact Hb|]. split; [exact Hw|]. split.
    + apply strip_scores_nil_iff. exact Hnil.
    + apply strip_nonnil_iff. intros E. rewrite E in Hlive. discriminate.
  - intros [b [Hb [Hw [Hall Hex]]]].
    apply strip_scores_nil_iff in Hall. apply strip_nonnil_iff in Hex.
    destruct (scrub_spec cand ceqb W b) as [Hrk' [Hsc' _]].
    assert (Hy : In (scrub W b) (filter (pos_wt cand) (map (scrub W) bs))).
    { apply filter_In. split; [apply in_map; exact Hb|].
      rewrite (scrub_pos cand ceqb). apply andb_true_iff. split; [apply (pos_wt_iff cand); exact Hw|].
      destruct (strip W (rk b)); [contradiction Hex; reflexivity|reflexivity]. }
    destruct (condense_covers cand ceqb ceqb_spec _ _ Hy) as [k [Hk Hsame]].
    exists k. split; [exact Hk|]. apply empty_sc_bool.
    unfold same_content in Hsame. apply andb_true_iff in Hsame. destruct Hsame as [_ Hs].
    rewrite Hsc', Hall in Hs. apply (scores_eqb_nil_r cand ceqb). exact Hs.
Qed.

Lemma stranded_dec : forall W (bs : list ballot),
  (exists b, In b bs /\ stranded W b) \/ ~ (exists b, In b bs /\ stranded W b).
Proof.
  intros W bs. destruct (existsb (fun b => negb (nonempty (sc b))) (remove_cand_bs W true false bs)) eqn:E.
  - left. apply removed_unscored_iff. exact E.
  - right. intros H. apply removed_unscored_iff in H. congruence.
Qed.

Lemma removed_keys_known : forall W (p : profile) k c, known p ->
  In k (remove_cand_bs W true false (ballots p)) -> In c (map fst (sc k)) ->
  In c (set_diff cand ceqb (cands p) W).
Proof.
  intros W p k c Hknown Hk Hc. unfold Core.remove_cand_bs in Hk.
  destruct (condense_no_invented cand ceqb _ k Hk) as [y [Hy [_ Hscy]]].
  apply filter_In in Hy. destruct Hy as [Hy _]. apply in_map_iff in Hy. destruct Hy as [b [<- Hb]].
  destruct (scrub_spec cand ceqb W b) as [_ [Hsc' _]].
  rewrite Hscy, Hsc' in Hc. apply in_map_iff in Hc. destruct Hc as [[c' q] [E Hin]]. cbn [fst] in E. subst c'.
  apply (strip_scores_spec cand ceqb ceqb_spec) in Hin. destruct Hin as [Hin HnW]. cbn [fst] in HnW.
  apply (set_diff_In cand ceqb ceqb_spec). split; [|exact HnW].
  apply (Hknown b Hb). apply in_map_iff. exists (c, q). split; [reflexivity|exact Hin].
Qed.

(* the profile with W removed: exists iff the remaining candidates are distinct *)
Lemma remove_prof_cases : forall W (p : profile),
  (NoDup (set_diff cand ceqb (cands p) W) /\
   exists np, remove_cand_prof W true false p = inl np /\
     ballots np = remove_cand_bs W true false (ballots p) /\
     (set_diff cand ceqb (cands p) W <> [] -> cands np = set_diff cand ceqb (cands p) W)) \/
  (~ NoDup (set_diff cand ceqb (cands p) W) /\ remove_cand_prof W true false p = inr EValue).
Proof.
  intros W p. unfold Core.remove_cand_prof, mk_profile.
  destruct (has_dup cand ceqb (set_diff cand ceqb (cands p) W)) eqn:E.
  - right. split; [|reflexivity]. intros Hnd.
    apply (Lib_sets.has_dup_false_iff cand ceqb ceqb_spec) in Hnd. congruence.
  - left. split; [apply (Lib_sets.has_dup_false_iff cand ceqb ceqb_spec); exact E|].
    eexists. split; [reflexivity|]. cbn [ballots cands]. split; [reflexivity|].
    intros Hne. destruct (set_diff cand ceqb (cands p) W); [contradiction Hne; reflexivity|reflexivity].
Qed.

(* scoring the profile with W removed *)
Lemma round1_scores : forall W (p np : profile), known p ->
  remove_cand_prof W true false p = inl np ->
  ((exists b, In b (ballots p) /\ stranded W b) -> score_from_scores np = inr EType) /\
  (~ (exists b, In b (ballots p) /\ stranded W b) ->
     score_from_scores np = inl (totals np)).
Proof.
  intros W p np Hknown Hnp.
  destruct (remove_prof_cases W p) as [[_ [np' [Hnp' [Hbs Hcs]]]]|[_ He]]; [|congruence].
  rewrite Hnp in Hnp'. inversion Hnp'; subst np'. clear Hnp'.
  split.
  - intros Hex. apply removed_unscored_iff in Hex. unfold Core.score_from_scores.
    rewrite Hbs, Hex. reflexivity.
  - intros Hno. apply score_from_scores_ok; [exact ceqb_spec| |].
    + intros b Hb Hsc. apply Hno. apply removed_unscored_iff. apply existsb_exists.
      exists b. split; [rewrite <- Hbs; exact Hb|apply empty_sc_bool; exact Hsc].
    + intros b Hb c Hc. rewrite Hbs in Hb.
      pose proof (removed_keys_known W p b c Hknown Hb Hc) as Hin.
      rewrite Hcs; [exact Hin|]. intros E. rewrite E in Hin. destruct Hin.
Qed.

(* ------------------------------------------------------------------ *)
(** * the one-shot score election on ballots that all carry scores *)

Definition scored (p : profile) : Prop := forall b, In b (ballots p) -> sc b <> [].

Lemma round0_scores : forall p : profile, scored p ->
  (known p /\ score_from_scores p = inl (totals p)) \/
  (~ known p /\ score_from_scores p = inr EKey).
Proof.
  intros p Hsc.
  destruct (forallb (fun b => subsetb cand ceqb (map fst (sc b)) (cands p)) (ballots p)) eqn:Hall.
  - assert (Hk : known p).
    { intros b Hb. rewrite forallb_forall in Hall. apply (Lib_sets.subsetb_incl cand ceqb ceqb_spec).
      apply Hall. exact Hb. }
    left. split; [exact Hk|]. apply score_from_scores_ok; [exact ceqb_spec|exact Hsc|exact Hk].
  - right. split.
    + intros Hk. assert (Hx : forallb (fun b => subsetb cand ceqb (map fst (sc b)) (cands p)) (ballots p) = true).
      { apply forallb_forall. intros b Hb. apply (Lib_sets.subsetb_incl cand ceqb ceqb_spec). apply Hk. exact Hb. }
      congruence.
    + unfold Core.score_from_scores. rewrite Hall.
      assert (E1 : existsb (fun b : ballot => negb (nonempty (sc b))) (ballots p) = false).
      { apply not_true_is_false. intros Hex. apply existsb_exists in Hex. destruct Hex as [b [Hb Hn]].
        apply empty_sc_bool in Hn. exact (Hsc b Hb Hn). }
      rewrite E1. reflexivity.
Qed.

Definition state0 (p : profile) : estate := state_of_scores cand 0 no_group no_group [] (totals p).
Definition state1 (el rem : ranking) (t : option (cset * ranking)) (d1 : scores) : estate :=
  mkState 1 rem el no_group (match t with Some x => [x] | None => [] end) d1.

(* the whole run, case by case *)
Lemma one_shot_cases : forall m tb (p : profile) s, scored p ->
  (~ known p -> run_one_shot SKBallotScores m tb p s = inr EKey) /\
  (known p ->
     (forall e, elect_top_m (score_to_ranking (totals p) true) m (Some p) tb s = inr e ->
        run_one_shot SKBallotScores m tb p s = inr e) /\
     (forall el rem t s',
        elect_top_m (score_to_ranking (totals p) true) m (Some p) tb s = inl ((el, rem, t), s') ->
        (~ NoDup (set_diff cand ceqb (cands p) (flat el)) ->
           run_one_shot SKBallotScores m tb p s = inr EValue) /\
        (NoDup (set_diff cand ceqb (cands p) (flat el)) ->
           ((exists b, In b (ballots p) /\ stranded (flat el) b) ->
              run_one_shot SKBallotScores m tb p s = inr EType) /\
           (~ (exists b, In b (ballots p) /\ stranded (flat el) b) ->
              exists np, remove_cand_prof (flat el) true false p = inl np /\
                run_one_shot SKBallotScores m tb p s
                = inl ([state0 p; state1 el rem t (totals np)], s'))))).
Proof.
  intros m tb p s Hsc. rewrite (run_one_shot_unfold cand ceqb). cbn [Rules.score_fn].
  destruct (round0_scores p Hsc) as [[Hk Hd]|[Hnk Hd]]; rewrite Hd.
  - split; [intros Hn; contradiction|]. intros _. split.
    + intros e He. rewrite He. reflexivity.
    + intros el rem t s' Hel. rewrite Hel.
      destruct (remove_prof_cases (flat el) p) as [[Hnd [np [Hnp _]]]|[Hnd He]].
      * split; [intros Hn; contradiction|]. intros _. rewrite Hnp.
        destruct (round1_scores (flat el) p np Hk Hnp) as [H1 H2]. split.
        -- intros Hex. rewrite (H1 Hex). reflexivity.
        -- intros Hno. exists np. split; [reflexivity|]. rewrite (H2 Hno). reflexivity.
      * split; [intros _; rewrite He; reflexivity|]. intros Hn. contradiction.
  - split; [intros _; reflexivity|]. intros Hk. contradiction.
Qed.

(* the top-m selection never raises TypeError unless a first_place / borda tiebreak is asked *)
Lemma elect_plain_no_type : forall (r : ranking) m (p : option profile) tb (s : mstate),
  plain_tb tb -> elect_top_m r m p tb s <> inr EType.
Proof.
  intros r m p tb s Htb He. apply (elect_top_m_err cand ceqb) in He.
  destruct He as [[Hx _]|[[Hx _]|[kind [g [Hk [_ Ht]]]]]]; try discriminate.
  destruct Htb as [->|[->| ->]]; [discriminate| |]; inversion Hk; subst kind.
  - cbn [Core.tiebreak_set] in Ht. unfold mbind in Ht.
    destruct (draw_perm cand ceqb g s) as [[l s1]|e'] eqn:E; [discriminate|].
    inversion Ht; subst e'. pose proof (draw_perm_err cand ceqb _ _ _ E). discriminate.
  - discriminate.
Qed.

(* TypeError of the one-shot run, exactly *)
Lemma one_shot_type_iff : forall m tb (p : profile) s, scored p ->
  (run_one_shot SKBallotScores m tb p s = inr EType <->
   known p /\
   (elect_top_m (score_to_ranking (totals p) true) m (Some p) tb s = inr EType \/
    exists el rem t s',
      elect_top_m (score_to_ranking (totals p) true) m (Some p) tb s = inl ((el, rem, t), s') /\
      NoDup (set_diff cand ceqb (cands p) (flat el)) /\
      exists b, In b (ballots p) /\ stranded (flat el) b)).
Proof.
  intros m tb p s Hsc. destruct (one_shot_cases m tb p s Hsc) as [HnK HK].
  destruct (round0_scores p Hsc) as [[Hk _]|[Hnk _]].
  - destruct (HK Hk) as [Herr Hok]. split.
    + intros H. split; [exact Hk|].
      destruct (elect_top_m (score_to_ranking (totals p) true) m (Some p) tb s)
        as [[[[el rem] t] s']|e] eqn:Hel.
      * right. exists el, rem, t, s'. split; [reflexivity|].
        destruct (Hok el rem t s' eq_refl) as [Hdup Hnd].
        destruct (remove_prof_cases (flat el) p) as [[Hn _]|[Hn _]].
        -- split; [exact Hn|]. destruct (Hnd Hn) as [_ Hsucc].
           destruct (stranded_dec (flat el) (ballots p)) as [Hex|Hno]; [exact Hex|].
           destruct (Hsucc Hno) as [np [_ Hrun]]. congruence.
        -- rewrite (Hdup Hn) in H. discriminate.
      * left. rewrite (Herr e eq_refl) in H. inversion H; subst e; reflexivity.
    + intros [_ [He|[el [rem [t [s' [Hel [Hnd Hex]]]]]]]].
      * apply Herr. exact He.
      * destruct (Hok el rem t s' Hel) as [_ H2]. destruct (H2 Hnd) as [H3 _]. apply H3. exact Hex.
  - rewrite (HnK Hnk). split; [discriminate|]. intros [Hk _]. contradiction.
Qed.

(* no ranked-but-unscored candidate: nobody can be stranded *)
Lemma covered_not_stranded : forall (p : profile) W, covered p ->
  ~ (exists b, In b (ballots p) /\ stranded W b).
Proof.
  intros p W Hcov [b [Hb [_ [Hall [c [Hc Hn]]]]]]. apply Hn. apply Hall. apply (Hcov b Hb). exact Hc.
Qed.

Lemma rated_covered : forall p : profile, wf_rated_profile cand p -> covered p /\ known p /\ NoDup (cands p).
Proof.
  intros p [Hnd Hall]. rewrite Forall_forall in Hall. split; [|split; [|exact Hnd]].
  - intros b Hb c Hc. destruct (Hall b Hb) as [Hrk _]. rewrite Hrk in Hc. destruct Hc.
  - intros b Hb. destruct (Hall b Hb) as [_ [_ [_ Hincl]]]. exact Hincl.
Qed.

Lemma ok_scored : forall L k (p : profile), Forall (score_ballot_ok L k) (ballots p) -> scored p.
Proof. intros L k p H b Hb. rewrite Forall_forall in H. apply (H b Hb). Qed.

(* the set elected without a tiebreak *)
Lemma flat_prefix : forall (el rem : ranking) m, Z.of_nat (length (flat el)) = m ->
  flat el = firstn (Z.to_nat m) (flat (el ++ rem)).
Proof.
  intros el rem m H. rewrite (flat_app cand), <- H, Nat2Z.id.
  rewrite firstn_app, Nat.sub_diag, firstn_all. cbn [firstn]. symmetry. apply app_nil_r.
Qed.

Lemma totals_ranking_len : forall p : profile,
  length (flat (score_to_ranking (totals p) true)) = length (cands p).
Proof.
  intros p. rewrite (ranking_size_scores cand), <- (totals_keys cand ceqb p). symmetry. apply map_length.
Qed.

End ClassesLib.
