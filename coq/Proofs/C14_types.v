(* Proofs/C14_types.v — property C14, slate models: the ballot-type loop of
   sample_cohesion_ballot_types ([type_loop]) returns an arrangement of the slate multiset, and
   [fill_type] / [slate_ballot] fill a type with the per-slate orders.  Also the interval
   reading of [which_bin] used by C16. *)
From VK Require Import Base Core GenValidation PrefInterval Generators GenSpec.
From VK Require Import Lib_rk Lib_sets C12_expand C15_slate C14_wf C14_kernels.
From Coq Require Import Permutation Lia Lqa Setoid Morphisms.

(* ------------------------------------------------------------------ *)
(** * which_bin : the bin of a flip *)

Definition psum (vs : list Q) (i : nat) : Q := qsum (firstn i vs).

Lemma psum_0 : forall vs, psum vs 0 = 0.
Proof. reflexivity. Qed.

Lemma psum_S_cons : forall v vs j, psum (v :: vs) (S j) == v + psum vs j.
Proof. intros v vs j. unfold psum. cbn [firstn]. rewrite qsum_cons. reflexivity. Qed.

Lemma psum_nonneg : forall vs j, Forall (fun v => 0 <= v) vs -> 0 <= psum vs j.
Proof.
  intros vs j H. unfold psum. apply qsum_nonneg. apply Forall_forall. intros x Hx.
  rewrite Forall_forall in H. apply H. rewrite <- (firstn_skipn j vs). apply in_or_app. left. exact Hx.
Qed.

Lemma psum_S_nth : forall vs j v, nth_error vs j = Some v -> psum vs (S j) == psum vs j + v.
Proof.
  induction vs as [|x vs IH]; intros [|j] v H; cbn [nth_error] in H; try discriminate.
  - injection H as <-. unfold psum. cbn [firstn]. rewrite !qsum_cons, qsum_nil. ring.
  - rewrite !psum_S_cons, (IH j v H). ring.
Qed.

Lemma which_bin_gen : forall vs lo u n i,
  which_bin (lo :: prefix_sums vs lo) u n = Some i ->
  exists j v, i = (n + j)%nat /\ nth_error vs j = Some v /\
              lo + psum vs j < u /\ u <= lo + psum vs j + v.
Proof.
  induction vs as [|v vs IH]; intros lo u n i H.
  - cbn [prefix_sums which_bin] in H. discriminate.
  - cbn [prefix_sums which_bin] in H.
    destruct (Qlt_bool lo u && Qle_bool u (lo + v)) eqn:E.
    + injection H as <-. apply andb_true_iff in E. destruct E as [E1 E2].
      apply Lib_rk.Qlt_bool_iff in E1. apply Qle_bool_iff in E2.
      exists O, v. rewrite psum_0. split; [lia|]. split; [reflexivity|]. split; lra.
    + apply IH in H. destruct H as (j & w & -> & Hn & H1 & H2).
      exists (S j), w. split; [lia|]. split; [exact Hn|]. rewrite psum_S_cons. split; lra.
Qed.

Lemma which_bin_gen_conv : forall vs lo u n j v,
  Forall (fun v => 0 <= v) vs ->
  nth_error vs j = Some v -> lo + psum vs j < u -> u <= lo + psum vs j + v ->
  which_bin (lo :: prefix_sums vs lo) u n = Some (n + j)%nat.
Proof.
  induction vs as [|x vs IH]; intros lo u n j v Hnn Hn H1 H2.
  - destruct j; discriminate.
  - inversion Hnn as [|y l Hx Hnn']; subst. cbn [prefix_sums which_bin]. destruct j as [|j].
    + cbn [nth_error] in Hn. injection Hn as <-. rewrite psum_0 in *.
      assert (E1 : Qlt_bool lo u = true) by (apply Lib_rk.Qlt_bool_iff; lra).
      assert (E2 : Qle_bool u (lo + x) = true) by (apply Qle_bool_iff; lra).
      rewrite E1, E2. cbn [andb]. f_equal. lia.
    + cbn [nth_error] in Hn. rewrite psum_S_cons in *.
      pose proof (psum_nonneg vs j Hnn') as Hp.
      assert (E2 : Qle_bool u (lo + x) = false).
      { destruct (Qle_bool u (lo + x)) eqn:E; [|reflexivity]. apply Qle_bool_iff in E. lra. }
      rewrite E2, andb_false_r. replace (n + S j)%nat with (S n + j)%nat by lia.
      apply (IH (lo + x) u (S n) j v Hnn' Hn); lra.
Qed.

(* the flip falls into bin i: (v_0 + ... + v_{i-1}, v_0 + ... + v_i] *)
Theorem which_bin_spec : forall values u i,
  which_bin (bins_of values) u 0 = Some i ->
  exists v, nth_error values i = Some v /\ psum values i < u /\ u <= psum values i + v /\ 0 < v.
Proof.
  intros values u i H. unfold bins_of in H. apply which_bin_gen in H.
  destruct H as (j & v & -> & Hn & H1 & H2). cbn [Nat.add]. exists v.
  split; [exact Hn|]. split; [lra|]. split; lra.
Qed.

Theorem which_bin_iff : forall values u i,
  Forall (fun v => 0 <= v) values ->
  (which_bin (bins_of values) u 0 = Some i <->
   (i < length values)%nat /\ psum values i < u /\ u <= psum values (S i)).
Proof.
  intros values u i Hnn. split.
  - intros H. apply which_bin_spec in H. destruct H as (v & Hn & H1 & H2 & _).
    split; [apply nth_error_Some; congruence|]. rewrite (psum_S_nth values i v Hn). split; lra.
  - intros (Hi & H1 & H2). destruct (nth_error values i) as [v|] eqn:Hn.
    + rewrite (psum_S_nth values i v Hn) in H2. unfold bins_of.
      apply (which_bin_gen_conv values 0 u 0 i v Hnn Hn); lra.
    + apply nth_error_None in Hn. lia.
Qed.

(* ------------------------------------------------------------------ *)
(** * remove_nth *)

Lemma nth_error_decomp : forall (A : Type) (l : list A) i x,
  nth_error l i = Some x ->
  exists l1 l2, l = l1 ++ x :: l2 /\ length l1 = i /\ remove_nth i l = l1 ++ l2.
Proof.
  intros A l. induction l as [|y l IH]; intros [|i] x H; cbn [nth_error] in H; try discriminate.
  - injection H as <-. exists [], l. repeat split.
  - destruct (IH i x H) as (l1 & l2 & -> & Hl & Hr). exists (y :: l1), l2.
    cbn [app length remove_nth]. rewrite Hr, Hl. repeat split.
Qed.

Lemma app_eq_len : forall (A : Type) (a a' b b' : list A),
  length a = length a' -> a ++ b = a' ++ b' -> a = a' /\ b = b'.
Proof. intros A a a' b b' H E. apply (app_eq_length_inv A a a' b b' H E). Qed.

Lemma combine_app_eq : forall (A B : Type) (a1 a2 : list A) (b1 b2 : list B),
  length a1 = length b1 -> combine (a1 ++ a2) (b1 ++ b2) = combine a1 b1 ++ combine a2 b2.
Proof.
  intros A B a1. induction a1 as [|x a1 IH]; intros a2 [|y b1] b2 H; cbn in H; try discriminate.
  - reflexivity.
  - cbn [app combine]. rewrite IH; [reflexivity|lia].
Qed.

Lemma in_combine_ex : forall (A B : Type) (a : list A) (b : list B) x,
  length a = length b -> In x a -> exists y, In (x, y) (combine a b).
Proof.
  intros A B a. induction a as [|z a IH]; intros [|w b] x H Hin; cbn in H; try discriminate;
    [destruct Hin|].
  destruct Hin as [->|Hin].
  - exists w. left. reflexivity.
  - destruct (IH b x ltac:(lia) Hin) as (y & Hy). exists y. right. exact Hy.
Qed.

Lemma in_combine_map_r : forall (A B C : Type) (f : B -> C) (a : list A) (b : list B) x w,
  In (x, w) (combine a (map f b)) -> exists v, In (x, v) (combine a b) /\ w = f v.
Proof.
  intros A B C f a. induction a as [|z a IH]; intros [|y b] x w H; cbn [map combine] in H;
    try (destruct H; fail).
  destruct H as [E|H].
  - injection E as <- <-. exists y. split; [left; reflexivity|reflexivity].
  - destruct (IH b x w H) as (v & Hv & ->). exists v. split; [right; exact Hv|reflexivity].
Qed.

Lemma qsum_zero_all : forall l, Forall (fun v => 0 <= v) l -> qsum l == 0 -> forall v, In v l -> v == 0.
Proof.
  induction l as [|x l IH]; intros Hnn Hs v Hin; [destruct Hin|].
  inversion Hnn as [|y l' Hx Hnn']; subst. rewrite qsum_cons in Hs.
  pose proof (qsum_nonneg l Hnn') as Hl.
  destruct Hin as [<-|Hin].
  - lra.
  - apply IH; [exact Hnn'|lra|exact Hin].
Qed.

(* ------------------------------------------------------------------ *)
(** * counting blocs *)

Lemma count_bloc_nil : forall b, count_bloc b [] = O.
Proof. reflexivity. Qed.

Lemma count_bloc_cons_same : forall b l, count_bloc b (b :: l) = S (count_bloc b l).
Proof. intros b l. rewrite count_bloc_cons, Pos.eqb_refl. reflexivity. Qed.

Lemma count_bloc_cons_other : forall b x l, b <> x -> count_bloc b (x :: l) = count_bloc b l.
Proof.
  intros b x l H. rewrite count_bloc_cons. apply Pos.eqb_neq in H. rewrite H. reflexivity.
Qed.

Lemma count_bloc_rev : forall b l, count_bloc b (rev l) = count_bloc b l.
Proof. intros b l. apply count_bloc_perm. apply Permutation_sym. apply Permutation_rev. Qed.

Lemma count_bloc_count_occ : forall b l, count_bloc b l = count_occ Pos.eq_dec l b.
Proof.
  intros b l. induction l as [|x l IH]; [reflexivity|].
  rewrite count_bloc_cons, IH. cbn [count_occ]. destruct (Pos.eq_dec x b) as [->|Hne].
  - rewrite Pos.eqb_refl. reflexivity.
  - destruct (Pos.eqb_spec b x) as [->|_]; [contradiction|reflexivity].
Qed.

Lemma count_bloc_not_in : forall b l, ~ In b l -> count_bloc b l = O.
Proof.
  intros b l H. rewrite count_bloc_count_occ. apply count_occ_not_In. exact H.
Qed.

Section Types.
Variable sizes : list (bloc * nat).
Let sz := size_of sizes.

Lemma count_type_multiset : forall blocs b, NoDup blocs ->
  count_bloc b (type_multiset sizes blocs) = if pmem b blocs then sz b else O.
Proof.
  intros blocs b. unfold type_multiset. induction blocs as [|x blocs IH]; intros Hnd.
  - reflexivity.
  - inversion Hnd as [|y l Hnotin Hnd']; subst. cbn [map concat]. rewrite count_bloc_app, (IH Hnd').
    unfold pmem. cbn [existsb]. fold (pmem b blocs).
    destruct (Pos.eqb_spec b x) as [->|Hne]; cbn [orb].
    + rewrite count_bloc_repeat_same. apply pmem_false in Hnotin. rewrite Hnotin. fold sz. lia.
    + rewrite (count_bloc_repeat_other b x _ Hne). reflexivity.
Qed.

(* flips still needed: every active bloc has to be filled up *)
Definition rem (blocs acc : list bloc) : nat :=
  list_sum (map (fun b => sz b - count_bloc b acc)%nat blocs).

Lemma rem_app : forall l1 l2 acc, rem (l1 ++ l2) acc = (rem l1 acc + rem l2 acc)%nat.
Proof. intros l1 l2 acc. unfold rem. rewrite map_app, list_sum_app. reflexivity. Qed.

Lemma rem_cons : forall b l acc, rem (b :: l) acc = ((sz b - count_bloc b acc) + rem l acc)%nat.
Proof. reflexivity. Qed.

Lemma rem_notin : forall l b acc, ~ In b l -> rem l (b :: acc) = rem l acc.
Proof.
  intros l b acc H. unfold rem. f_equal. apply map_ext_in. intros x Hx.
  rewrite count_bloc_cons_other; [reflexivity|]. intros ->. contradiction.
Qed.

Lemma rem_zero : forall blocs acc,
  (forall b, In b blocs -> (count_bloc b acc < sz b)%nat) -> rem blocs acc = O -> blocs = [].
Proof.
  intros [|b blocs] acc H Hr; [reflexivity|]. rewrite rem_cons in Hr.
  specialize (H b (or_introl eq_refl)). lia.
Qed.

Definition shuffle_ok (sh : option (list bloc)) (calls : list gcall) : Prop :=
  forall pop, In (GShuffle pop) calls -> exists s, sh = Some s /\ Permutation s pop.

Lemma type_loop_inv : forall flips blocs values acc sh t calls,
  NoDup blocs -> length blocs = length values ->
  Forall (fun v => 0 <= v) values ->
  (forall b, In b blocs -> (count_bloc b acc < sz b)%nat) ->
  (forall b v, In (b, v) (combine blocs values) -> v == 0 -> count_bloc b acc = O) ->
  length flips = rem blocs acc ->
  shuffle_ok sh calls ->
  type_loop flips blocs values sizes acc sh = inl (t, calls) ->
  forall x, count_bloc x t = if pmem x blocs then sz x else count_bloc x acc.
Proof.
  induction flips as [|flip rest IH];
    intros blocs values acc sh t calls Hnd Hlen Hnn Hlt Hzero Hfl Hsh H x.
  - cbn [type_loop] in H. injection H as <- <-. cbn [length] in Hfl.
    rewrite (rem_zero blocs acc Hlt (eq_sym Hfl)). cbn [pmem existsb]. apply count_bloc_rev.
  - cbn [type_loop] in H.
    destruct (which_bin (bins_of values) flip 0) as [i|] eqn:Ew; [|discriminate].
    destruct (nth_error blocs i) as [b|] eqn:Eb; [|discriminate].
    apply which_bin_spec in Ew. destruct Ew as (v & Ev & _ & _ & Hvpos).
    destruct (nth_error_decomp _ blocs i b Eb) as (l1 & l2 & Hb & Hl1 & Hrb).
    destruct (nth_error_decomp _ values i v Ev) as (m1 & m2 & Hv & Hm1 & Hrv).
    assert (Hlm : length l1 = length m1) by lia.
    assert (Hlm2 : length l2 = length m2).
    { rewrite Hb, Hv, !app_length in Hlen. cbn [length] in Hlen. lia. }
    assert (Hcomb : combine blocs values = combine l1 m1 ++ (b, v) :: combine l2 m2).
    { rewrite Hb, Hv. rewrite combine_app_eq by exact Hlm. reflexivity. }
    assert (Hndb : ~ In b l1 /\ ~ In b l2 /\ NoDup (l1 ++ l2)).
    { rewrite Hb in Hnd. split; [|split].
      - intros Hc. apply NoDup_remove_2 in Hnd. apply Hnd. apply in_or_app. left. exact Hc.
      - intros Hc. apply NoDup_remove_2 in Hnd. apply Hnd. apply in_or_app. right. exact Hc.
      - apply NoDup_remove_1 in Hnd. exact Hnd. }
    destruct Hndb as (Hb1 & Hb2 & Hnd').
    assert (Hbin : In b blocs) by (rewrite Hb; apply in_or_app; right; left; reflexivity).
    assert (Hin' : forall y, In y (l1 ++ l2) -> In y blocs /\ y <> b).
    { intros y Hy. split.
      - rewrite Hb. apply in_app_or in Hy. apply in_or_app. destruct Hy; [left|right; right]; assumption.
      - intros ->. apply in_app_or in Hy. destruct Hy; contradiction. }
    assert (Hin'' : forall y, In y blocs -> y <> b -> In y (l1 ++ l2)).
    { intros y Hy Hne. rewrite Hb in Hy. apply in_app_or in Hy. apply in_or_app.
      destruct Hy as [Hy|[Hy|Hy]]; [left; exact Hy|congruence|right; exact Hy]. }
    assert (Hbv : forall w, In (b, w) (combine blocs values) -> w = v).
    { intros w Hw. rewrite Hcomb in Hw. apply in_app_or in Hw. destruct Hw as [Hw|[Hw|Hw]].
      - apply in_combine_l in Hw. contradiction.
      - injection Hw as <-. reflexivity.
      - apply in_combine_l in Hw. contradiction. }
    assert (Hsub : forall y w, In (y, w) (combine (l1 ++ l2) (m1 ++ m2)) -> In (y, w) (combine blocs values)).
    { intros y w Hy. rewrite combine_app_eq in Hy by exact Hlm. rewrite Hcomb.
      apply in_app_or in Hy. apply in_or_app. destruct Hy; [left|right; right]; assumption. }
    fold (size_of sizes b) in H. fold sz in H.
    rewrite Hrb, Hrv in H.
    destruct (Nat.eqb_spec (count_bloc b (b :: acc)) (sz b)) as [Hfull|Hnot].
    + (* the slate is used up *)
      destruct (Qeq_bool (qsum (m1 ++ m2)) 0 && nonempty (m1 ++ m2)) eqn:Ez.
      * (* all remaining cohesion values are zero: shuffle *)
        destruct sh as [s|]; [|discriminate]. injection H as <- <-.
        destruct (Hsh _ (or_introl eq_refl)) as (s' & Es & Ps). injection Es as <-.
        apply andb_true_iff in Ez. destruct Ez as [Ez _]. apply Qeq_bool_iff in Ez.
        assert (Hnn' : Forall (fun v => 0 <= v) (m1 ++ m2)).
        { rewrite Hv in Hnn. apply Forall_app in Hnn. destruct Hnn as [N1 N2].
          inversion N2; subst. apply Forall_app. split; assumption. }
        change (rev acc ++ [b]) with (rev (b :: acc)).
        rewrite count_bloc_app, count_bloc_rev, (count_bloc_perm x s _ Ps).
        match goal with |- context [count_bloc x (concat ?m)] =>
          change (concat m) with (type_multiset sizes (l1 ++ l2)) end.
        rewrite (count_type_multiset (l1 ++ l2) x Hnd').
        destruct (pmem x (l1 ++ l2)) eqn:Ex.
        -- apply pmem_In in Ex. destruct (Hin' x Ex) as (Hxb & Hxne).
           assert (Ep : pmem x blocs = true) by (apply pmem_In; exact Hxb). rewrite Ep.
           rewrite count_bloc_cons_other by exact Hxne.
           destruct (in_combine_ex _ _ (l1 ++ l2) (m1 ++ m2) x) as (w & Hw);
             [rewrite !app_length; lia|exact Ex|].
           assert (Hw0 : w == 0).
           { apply (qsum_zero_all (m1 ++ m2) Hnn' Ez). apply in_combine_r in Hw. exact Hw. }
           rewrite (Hzero x w (Hsub x w Hw) Hw0). lia.
        -- apply pmem_false in Ex. destruct (Pos.eq_dec x b) as [->|Hxne].
           ++ assert (Ep : pmem b blocs = true) by (apply pmem_In; exact Hbin). rewrite Ep. lia.
           ++ assert (Ep : pmem x blocs = false).
              { apply pmem_false. intros Hc. apply Ex. apply Hin''; assumption. }
              rewrite Ep, count_bloc_cons_other by exact Hxne. lia.
      * (* renormalise and go on *)
        set (tot := qsum (m1 ++ m2)) in *.
        assert (Htot : m1 ++ m2 = [] \/ 0 < tot).
        { destruct (m1 ++ m2) as [|w0 ws] eqn:Em; [left; reflexivity|right].
          cbn [nonempty] in Ez. rewrite andb_true_r in Ez. apply Lib_rk.Qeq_bool_false_iff in Ez.
          assert (Hnn' : Forall (fun v => 0 <= v) (w0 :: ws)).
          { rewrite <- Em. rewrite Hv in Hnn. apply Forall_app in Hnn. destruct Hnn as [N1 N2].
            inversion N2; subst. apply Forall_app. split; assumption. }
          pose proof (qsum_nonneg _ Hnn') as Hge. fold tot in Hge.
          destruct (Qlt_le_dec 0 tot) as [Hp|Hq]; [exact Hp|].
          exfalso. apply Ez. apply Qle_antisym; assumption. }
        assert (Hx := IH (l1 ++ l2) (map (fun v0 => v0 / tot) (m1 ++ m2)) (b :: acc) sh t calls).
        rewrite Hx; clear Hx; try assumption.
        -- destruct (Pos.eq_dec x b) as [->|Hxne].
           ++ assert (E1 : pmem b (l1 ++ l2) = false).
              { apply pmem_false. intros Hc. apply in_app_or in Hc. destruct Hc; contradiction. }
              assert (E2 : pmem b blocs = true) by (apply pmem_In; exact Hbin).
              rewrite E1, E2. exact Hfull.
           ++ destruct (pmem x blocs) eqn:Ep.
              ** apply pmem_In in Ep.
                 assert (E1 : pmem x (l1 ++ l2) = true) by (apply pmem_In; apply Hin''; assumption).
                 rewrite E1. reflexivity.
              ** apply pmem_false in Ep.
                 assert (E1 : pmem x (l1 ++ l2) = false).
                 { apply pmem_false. intros Hc. apply Ep. apply (Hin' x Hc). }
                 rewrite E1. apply count_bloc_cons_other. exact Hxne.
        -- rewrite map_length, !app_length. lia.
        -- apply Forall_forall. intros w Hw. apply in_map_iff in Hw. destruct Hw as (w0 & <- & Hw0).
           destruct Htot as [Hnil|Hp]; [rewrite Hnil in Hw0; destruct Hw0|].
           assert (0 <= w0).
           { rewrite Forall_forall in Hnn. apply Hnn. rewrite Hv. apply in_app_or in Hw0.
             apply in_or_app. destruct Hw0; [left|right; right]; assumption. }
           apply Qle_shift_div_l; [exact Hp|]. lra.
        -- intros y Hy. destruct (Hin' y Hy) as (Hyb & Hyne).
           rewrite count_bloc_cons_other by exact Hyne. apply Hlt. exact Hyb.
        -- intros y w Hy Hw0. apply in_combine_map_r in Hy. destruct Hy as (w1 & Hy & ->).
           assert (Hyin : In y (l1 ++ l2)) by (apply in_combine_l in Hy; exact Hy).
           destruct (Hin' y Hyin) as (_ & Hyne). rewrite count_bloc_cons_other by exact Hyne.
           apply (Hzero y w1 (Hsub y w1 Hy)).
           destruct Htot as [Hnil|Hp]; [apply in_combine_r in Hy; rewrite Hnil in Hy; destruct Hy|].
           assert (Hne : ~ tot == 0) by lra.
           setoid_replace w1 with ((w1 / tot) * tot) by (field; exact Hne). rewrite Hw0. ring.
        -- cbn [length] in Hfl. rewrite Hb, rem_app, rem_cons in Hfl.
           rewrite rem_app, (rem_notin l1 b acc Hb1), (rem_notin l2 b acc Hb2).
           rewrite count_bloc_cons_same in Hfull. specialize (Hlt b Hbin). lia.
    + (* the slate still has room *)
      assert (Hx := IH blocs values (b :: acc) sh t calls).
      rewrite Hx; clear Hx; try assumption.
      * destruct (pmem x blocs) eqn:Ep; [reflexivity|].
        apply pmem_false in Ep. apply count_bloc_cons_other. intros ->. contradiction.
      * intros y Hy. destruct (Pos.eq_dec y b) as [->|Hyne].
        -- rewrite count_bloc_cons_same in *. specialize (Hlt b Hbin). lia.
        -- rewrite count_bloc_cons_other by exact Hyne. apply Hlt. exact Hy.
      * intros y w Hy Hw0. destruct (Pos.eq_dec y b) as [->|Hyne].
        -- rewrite (Hbv w Hy) in Hw0. lra.
        -- rewrite count_bloc_cons_other by exact Hyne. apply (Hzero y w Hy Hw0).
      * cbn [length] in Hfl. rewrite Hb, rem_app, rem_cons in Hfl.
        rewrite Hb, rem_app, rem_cons, (rem_notin l1 b acc Hb1), (rem_notin l2 b acc Hb2).
        rewrite count_bloc_cons_same in *. specialize (Hlt b Hbin). lia.
Qed.

Theorem type_loop_arrangement : forall flips blocs values sh t calls,
  NoDup blocs -> length blocs = length values ->
  Forall (fun v => 0 <= v) values ->
  (forall b, In b blocs -> (1 <= sz b)%nat) ->
  length flips = list_sum (map sz blocs) ->
  shuffle_ok sh calls ->
  type_loop flips blocs values sizes [] sh = inl (t, calls) ->
  (forall b, In b blocs -> count_bloc b t = sz b) /\
  (forall b, ~ In b blocs -> count_bloc b t = O) /\
  Permutation t (type_multiset sizes blocs) /\
  length t = length flips.
Proof.
  intros flips blocs values sh t calls Hnd Hlen Hnn Hsz Hfl Hsh H.
  assert (Hc : forall x, count_bloc x t = if pmem x blocs then sz x else count_bloc x []).
  { apply (type_loop_inv flips blocs values [] sh t calls); try assumption.
    - intros b v _ _. reflexivity.
    - rewrite Hfl. unfold rem. f_equal. apply map_ext. intros b. rewrite count_bloc_nil. lia. }
  assert (P : Permutation t (type_multiset sizes blocs)).
  { apply (Permutation_count_occ Pos.eq_dec). intros x.
    rewrite <- !count_bloc_count_occ, Hc, (count_type_multiset blocs x Hnd). reflexivity. }
  split; [|split; [|split]].
  - intros b Hb. rewrite Hc. apply pmem_In in Hb. rewrite Hb. reflexivity.
  - intros b Hb. rewrite Hc. apply pmem_false in Hb. rewrite Hb. reflexivity.
  - exact P.
  - rewrite (Permutation_length P), Hfl. unfold type_multiset. clear.
    induction blocs as [|b blocs IH]; [reflexivity|].
    cbn [map concat list_sum]. rewrite app_length, repeat_length, IH. reflexivity.
Qed.

End Types.

(* ------------------------------------------------------------------ *)
(** * fill_type / slate_ballot *)

Definition upd_order (b : bloc) (more : list pcand) (orders : list (bloc * list pcand)) :=
  map (fun x : bloc * list pcand => if Pos.eqb b (fst x) then (fst x, more) else x) orders.

Lemma order_of_cons : forall k o orders b,
  order_of ((k, o) :: orders) b = if Pos.eqb b k then o else order_of orders b.
Proof. intros k o orders b. unfold order_of. cbn [find fst]. destruct (Pos.eqb b k); reflexivity. Qed.

Lemma order_of_upd_same : forall orders b more x,
  find (fun x => Pos.eqb b (fst x)) orders = Some x -> order_of (upd_order b more orders) b = more.
Proof.
  induction orders as [|[k o] orders IH]; intros b more x H; [discriminate|].
  cbn [find fst] in H. cbn [upd_order map fst]. destruct (Pos.eqb b k) eqn:E.
  - cbn [fst]. rewrite order_of_cons, E. reflexivity.
  - rewrite order_of_cons, E. apply (IH b more x H).
Qed.

Lemma order_of_upd_other : forall orders b more b', b' <> b ->
  order_of (upd_order b more orders) b' = order_of orders b'.
Proof.
  induction orders as [|[k o] orders IH]; intros b more b' Hne; [reflexivity|].
  cbn [upd_order map fst]. destruct (Pos.eqb_spec b k) as [->|Hbk].
  - cbn [fst]. rewrite !order_of_cons. apply Pos.eqb_neq in Hne. rewrite Hne. apply IH.
    apply Pos.eqb_neq. exact Hne.
  - rewrite !order_of_cons. destruct (Pos.eqb b' k); [reflexivity|]. apply IH. exact Hne.
Qed.

Lemma slots_cons : forall b b0 t c r,
  slots b (b0 :: t) (c :: r) = if Pos.eqb b b0 then c :: slots b t r else slots b t r.
Proof.
  intros b b0 t c r. unfold slots. cbn [combine filter fst]. destruct (Pos.eqb b b0); reflexivity.
Qed.

Theorem fill_type_spec : forall t orders r,
  fill_type t orders = inl r ->
  length r = length t /\
  forall b, slots b t r = firstn (count_bloc b t) (order_of orders b).
Proof.
  induction t as [|b0 t IH]; intros orders r H; cbn [fill_type] in H.
  - injection H as <-. split; [reflexivity|]. intros b. reflexivity.
  - destruct (find (fun x => Pos.eqb b0 (fst x)) orders) as [[k [|c more]]|] eqn:Ef; try discriminate.
    match type of H with context [fill_type t ?o] =>
      change o with (upd_order b0 more orders) in H end.
    destruct (fill_type t (upd_order b0 more orders)) as [rest|e] eqn:Er; cbn [rbind] in H;
      [|discriminate].
    injection H as <-. destruct (IH _ _ Er) as (Hl & Hs).
    split; [cbn [length]; rewrite Hl; reflexivity|].
    intros b. rewrite slots_cons, Hs, count_bloc_cons.
    destruct (Pos.eqb_spec b b0) as [->|Hne].
    + rewrite (order_of_upd_same orders b0 more _ Ef).
      unfold order_of. rewrite Ef. cbn [snd Nat.add firstn]. reflexivity.
    + rewrite (order_of_upd_other orders b0 more b Hne). reflexivity.
Qed.

(* a filled ballot is the merge of its slots *)
Lemma slots_partition : forall blocs t r,
  length r = length t -> NoDup blocs -> (forall x, In x t -> In x blocs) ->
  Permutation r (concat (map (fun b => slots b t r) blocs)).
Proof.
  intros blocs t. induction t as [|b0 t IH]; intros r Hl Hnd Hin.
  - destruct r; [|discriminate]. clear. induction blocs as [|b blocs IH]; [constructor|exact IH].
  - destruct r as [|c r]; [discriminate|]. cbn [length] in Hl.
    assert (Hb0 : In b0 blocs) by (apply Hin; left; reflexivity).
    apply in_split in Hb0. destruct Hb0 as (l1 & l2 & ->).
    assert (Hn1 : ~ In b0 l1).
    { intros Hc. apply NoDup_remove_2 in Hnd. apply Hnd. apply in_or_app. left. exact Hc. }
    assert (Hn2 : ~ In b0 l2).
    { intros Hc. apply NoDup_remove_2 in Hnd. apply Hnd. apply in_or_app. right. exact Hc. }
    specialize (IH r ltac:(lia) Hnd (fun x Hx => Hin x (or_intror Hx))).
    rewrite map_app, concat_app in IH |- *. cbn [map concat] in IH |- *.
    rewrite slots_cons, Pos.eqb_refl.
    assert (E : forall l, ~ In b0 l ->
              map (fun b => slots b (b0 :: t) (c :: r)) l = map (fun b => slots b t r) l).
    { intros l Hl0. apply map_ext_in. intros b Hb. rewrite slots_cons.
      destruct (Pos.eqb_spec b b0) as [->|_]; [contradiction|reflexivity]. }
    rewrite (E l1 Hn1), (E l2 Hn2). cbn [app].
    eapply Permutation_trans; [apply perm_skip; exact IH|]. apply Permutation_middle.
Qed.

Theorem slate_ballot_inv : forall intervals zero t orders b calls,
  slate_ballot intervals zero t orders = inl (b, calls) ->
  exists r, fill_type t orders = inl r /\ b = unit_ballot (rank_of r zero) /\
    calls = map (fun x : bloc * pinterval => GPL (pi_int (snd x)) (length (pi_int (snd x))))
                (filter (fun x : bloc * pinterval => nonempty (pi_int (snd x))) intervals) /\
    (forall bl iv, In (bl, iv) intervals -> pi_int iv <> [] ->
       valid_sample (map fst (pi_int iv)) (length (pi_int iv)) (order_of orders bl) = true).
Proof.
  intros intervals zero t orders b calls H. unfold slate_ballot in H.
  match type of H with (if negb ?c then _ else _) = _ => destruct c eqn:Ef end;
    cbn [negb] in H; [|discriminate].
  destruct (fill_type t orders) as [r|e] eqn:Er; cbn [rbind] in H; [|discriminate].
  injection H as <- <-. exists r. split; [reflexivity|]. split; [reflexivity|]. split; [reflexivity|].
  intros bl iv Hin Hne. rewrite forallb_forall in Ef.
  specialize (Ef (bl, iv)). cbn [fst snd] in Ef.
  assert (Hf : In (bl, iv) (filter (fun x : bloc * pinterval => nonempty (pi_int (snd x))) intervals)).
  { apply filter_In. split; [exact Hin|]. cbn [snd]. destruct (pi_int iv); [contradiction|reflexivity]. }
  specialize (Ef Hf).
  match type of Ef with (match ?f with _ => _ end) = true =>
    change (valid_sample (map fst (pi_int iv)) (length (pi_int iv))
              (match f with Some x => snd x | None => [] end) = true);
    destruct f as [o|] end; [exact Ef|discriminate Ef].
Qed.

Theorem slate_ballot_wf : forall intervals zero t orders b calls,
  NoDup (map fst intervals) ->
  (forall x, In x t -> In x (map fst intervals)) ->
  (forall bl iv, In (bl, iv) intervals -> count_bloc bl t = length (pi_int iv)) ->
  slate_ballot intervals zero t orders = inl (b, calls) ->
  exists r,
    wt b == 1 /\ sc b = [] /\
    rk b = singletons pcand r ++ (match zero with [] => [] | _ => [zero] end) /\
    flat pcand (rk b) = r ++ zero /\
    length r = length t /\
    (forall bl iv, In (bl, iv) intervals ->
       (pi_int iv <> [] -> slots bl t r = order_of orders bl) /\
       length (slots bl t r) = length (pi_int iv) /\ NoDup (slots bl t r) /\
       incl (slots bl t r) (map fst (pi_int iv)) /\
       (NoDup (map fst (pi_int iv)) -> Permutation (slots bl t r) (map fst (pi_int iv)))) /\
    Permutation r (concat (map (fun x : bloc * pinterval => slots (fst x) t r) intervals)) /\
    calls = map (fun x : bloc * pinterval => GPL (pi_int (snd x)) (length (pi_int (snd x))))
                (filter (fun x : bloc * pinterval => nonempty (pi_int (snd x))) intervals).
Proof.
  intros intervals zero t orders b calls Hnd Hin Hcnt H. apply slate_ballot_inv in H.
  destruct H as (r & Hf & -> & -> & Hv). apply fill_type_spec in Hf. destruct Hf as (Hl & Hs).
  exists r. split; [reflexivity|]. split; [reflexivity|]. split; [reflexivity|].
  split; [cbn [unit_ballot plain_ballot rk]; apply flat_rank_of|]. split; [exact Hl|].
  split; [|split; [|reflexivity]].
  - intros bl iv Hbi. rewrite Hs, (Hcnt bl iv Hbi).
    destruct (pi_int iv) as [|p ps] eqn:Ep.
    + cbn [length firstn map]. split; [intros Hc; contradiction|].
      split; [reflexivity|]. split; [constructor|]. split; [intros c []|]. intros _. constructor.
    + assert (Hne : pi_int iv <> []) by (rewrite Ep; discriminate).
      specialize (Hv bl iv Hbi Hne). rewrite Ep in Hv. apply valid_sample_iff in Hv.
      destruct Hv as (L & N & I). rewrite <- L, firstn_all.
      split; [intros _; reflexivity|]. split; [reflexivity|]. split; [exact N|]. split; [exact I|].
      intros Hk. apply NoDup_incl_length_perm; try assumption. rewrite map_length. exact L.
  - rewrite <- (map_map fst (fun bl => slots bl t r)).
    apply slots_partition; [exact Hl|exact Hnd|exact Hin].
Qed.
