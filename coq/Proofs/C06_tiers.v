(* Proofs/C06_tiers.v — C06 parts 2-3: reachability in the beats-or-ties digraph ([has_path]),
   the structure of [tiers_of] in a semi-complete digraph, then the profile-level theorems
   (partition, domination, minimality, Smith set, Condorcet winner). *)
From VK Require Import Base Core Pairwise PairwiseSpec.
From VK.Proofs Require Import C12_expand Lib_rk Lib_sets C06_pairwise.
From Coq Require Import Permutation Lia Lqa Setoid Morphisms Relations Sorting.Sorted.

(* ------------------------------------------------------------------ *)
(** * Generic list facts *)

Lemma filter_len_le_all : forall {A} (f : A -> bool) l, (length (filter f l) <= length l)%nat.
Proof.
  intros A f l. induction l as [|a l IH]; [apply le_n|].
  cbn [filter]. destruct (f a); cbn [length]; lia.
Qed.

Lemma filter_len_mono : forall {A} (f g : A -> bool) l,
  (forall x, In x l -> f x = true -> g x = true) ->
  (length (filter f l) <= length (filter g l))%nat.
Proof.
  intros A f g l. induction l as [|a l IH]; intros H; [apply le_n|].
  assert (IH' : (length (filter f l) <= length (filter g l))%nat).
  { apply IH. intros x Hx. apply H. right. exact Hx. }
  cbn [filter]. destruct (f a) eqn:Ef.
  - rewrite (H a (or_introl eq_refl) Ef). cbn [length]. lia.
  - destruct (g a); cbn [length]; lia.
Qed.

Lemma filter_len_strict : forall {A} (f g : A -> bool) l,
  (forall x, In x l -> f x = true -> g x = true) ->
  (exists x, In x l /\ f x = false /\ g x = true) ->
  (length (filter f l) < length (filter g l))%nat.
Proof.
  intros A f g l. induction l as [|a l IH]; intros H [x [Hx [Hfx Hgx]]]; [destruct Hx|].
  assert (Hle : (length (filter f l) <= length (filter g l))%nat).
  { apply filter_len_mono. intros y Hy. apply H. right. exact Hy. }
  cbn [filter]. destruct Hx as [<-|Hx].
  - rewrite Hfx, Hgx. cbn [length]. lia.
  - assert (IH' : (length (filter f l) < length (filter g l))%nat).
    { apply IH; [intros y Hy; apply H; right; exact Hy|]. exists x. auto. }
    destruct (f a) eqn:Ef.
    + rewrite (H a (or_introl eq_refl) Ef). cbn [length]. lia.
    + destruct (g a); cbn [length]; lia.
Qed.

Lemma filter_len_full : forall {A} (f : A -> bool) l,
  (length l <= length (filter f l))%nat -> forall x, In x l -> f x = true.
Proof.
  intros A f l. induction l as [|a l IH]; intros Hlen x Hx; [destruct Hx|].
  cbn [filter] in Hlen. pose proof (filter_len_le_all f l) as Hle. destruct (f a) eqn:Ef.
  - cbn [length] in Hlen. destruct Hx as [<-|Hx]; [exact Ef|]. apply IH; [lia|exact Hx].
  - cbn [length] in Hlen. lia.
Qed.

Lemma filter_len_split : forall {A} (g f : A -> bool) l,
  length (filter f l) =
  (length (filter (fun x => g x && f x) l) + length (filter (fun x => negb (g x) && f x) l))%nat.
Proof.
  intros A g f l. induction l as [|a l IH]; [reflexivity|].
  cbn [filter]. destruct (g a), (f a); cbn [andb negb length]; lia.
Qed.

(* insert_desc_nat keeps a strictly decreasing list strictly decreasing *)
Lemma insert_desc_nat_In : forall x l y, In y (insert_desc_nat x l) <-> y = x \/ In y l.
Proof.
  intros x l y. induction l as [|z l IH]; cbn [insert_desc_nat].
  - cbn [In]. intuition.
  - destruct (Nat.eqb x z) eqn:Exz.
    + apply Nat.eqb_eq in Exz. subst z. cbn [In]. intuition.
    + destruct (Nat.ltb z x); cbn [In]; [intuition|]. rewrite IH. intuition.
Qed.

Lemma insert_desc_nat_sorted : forall x l,
  StronglySorted gt l -> StronglySorted gt (insert_desc_nat x l).
Proof.
  intros x l H. induction H as [|z l Hs IH Hall]; cbn [insert_desc_nat].
  - constructor; [constructor|constructor].
  - destruct (Nat.eqb x z) eqn:Exz; [constructor; assumption|].
    apply Nat.eqb_neq in Exz. destruct (Nat.ltb z x) eqn:Elt.
    + apply Nat.ltb_lt in Elt. constructor; [constructor; assumption|].
      constructor; [lia|]. rewrite Forall_forall in Hall |- *. intros y Hy. specialize (Hall y Hy). lia.
    + apply Nat.ltb_ge in Elt. constructor; [exact IH|].
      rewrite Forall_forall in Hall |- *. intros y Hy. apply insert_desc_nat_In in Hy.
      destruct Hy as [->|Hy]; [lia|apply Hall; exact Hy].
Qed.

Lemma sorted_gt_NoDup : forall l, StronglySorted gt l -> NoDup l.
Proof.
  intros l H. induction H as [|z l Hs IH Hall]; constructor; [|exact IH].
  intros Hin. rewrite Forall_forall in Hall. specialize (Hall z Hin). lia.
Qed.

(* grouping a list by the values of a key: a partition *)
Lemma group_by_perm : forall {A} (f : A -> nat) (l : list A) (ks : list nat),
  NoDup ks ->
  Permutation (concat (map (fun k => filter (fun c => Nat.eqb (f c) k) l) ks))
              (filter (fun c => existsb (Nat.eqb (f c)) ks) l).
Proof.
  intros A f l ks Hnd. induction Hnd as [|k ks Hk _ IH].
  - cbn [map concat existsb]. rewrite filter_all_false; [constructor|reflexivity].
  - cbn [map concat existsb]. eapply Permutation_trans; [apply Permutation_app_head; exact IH|].
    apply filter_disjoint_or_perm. intros a _ Ha. apply Nat.eqb_eq in Ha.
    apply not_true_is_false. intros Hex. apply existsb_exists in Hex. destruct Hex as [k' [Hk' E]].
    apply Nat.eqb_eq in E. subst. contradiction.
Qed.

Section Graph.
Variable cand : Type.
Variable ceqb : cand -> cand -> bool.
Hypothesis ceqb_spec : forall a b, reflect (a = b) (ceqb a b).
Variable es : list (cand * cand * Q).
Variable cs : list cand.

Notation memb := (memb cand ceqb).
Notation E := (edge cand ceqb es).
Notation step := (step_reach cand ceqb es cs).
Notation iter := (fun n => reach_iter cand ceqb n es cs).
Notation hp := (has_path cand ceqb es cs).
Notation bsz := (beat_size cand ceqb es cs).
Notation tiers := (tiers_of cand ceqb es cs).
Notation reaches := (reaches cand E cs).
Notation edge_in := (edge_in cand E cs).

Local Notation ceqb_refl := (ceqb_refl cand ceqb ceqb_spec).
Local Notation ceqb_true_iff := (ceqb_true_iff cand ceqb ceqb_spec).
Local Notation memb_In := (memb_In cand ceqb ceqb_spec).
Local Notation memb_false_iff := (memb_false_iff cand ceqb ceqb_spec).

(* ------------------------------------------------------------------ *)
(** * Reachability: [reach_iter] with fuel [length cs] computes the reflexive-transitive closure *)

Lemma step_In : forall cur y,
  In y (step cur) <-> In y cs /\ (In y cur \/ exists x, In x cur /\ E x y = true).
Proof.
  intros cur y. unfold step_reach. rewrite filter_In, orb_true_iff, memb_In, existsb_exists. tauto.
Qed.

Lemma step_sub : forall cur, incl (step cur) cs.
Proof. intros cur y Hy. apply step_In in Hy. tauto. Qed.

Lemma step_mono : forall cur, incl cur cs -> incl cur (step cur).
Proof. intros cur Hsub y Hy. apply step_In. split; [apply Hsub; exact Hy|left; exact Hy]. Qed.

Lemma iter_sub : forall n cur, incl cur cs -> incl (iter n cur) cs.
Proof.
  intros n. induction n as [|n IH]; intros cur Hsub; cbn [reach_iter]; [exact Hsub|].
  apply IH. apply step_sub.
Qed.

Lemma iter_mono : forall n cur, incl cur cs -> incl cur (iter n cur).
Proof.
  intros n. induction n as [|n IH]; intros cur Hsub; cbn [reach_iter]; [apply incl_refl|].
  eapply incl_tran; [apply step_mono; exact Hsub|]. apply IH. apply step_sub.
Qed.

(* soundness: whatever is collected is reachable from the start set *)
Lemma iter_sound : forall n cur y, incl cur cs -> In y (iter n cur) ->
  exists x, In x cur /\ reaches x y.
Proof.
  intros n. induction n as [|n IH]; intros cur y Hsub Hy; cbn [reach_iter] in Hy.
  - exists y. split; [exact Hy|apply rt_refl].
  - destruct (IH (step cur) y (step_sub cur) Hy) as [x' [Hx' Hr]].
    apply step_In in Hx'. destruct Hx' as [Hcs' [Hin|[x [Hx Hxx']]]].
    + exists x'. split; [exact Hin|exact Hr].
    + exists x. split; [exact Hx|]. eapply rt_trans; [|exact Hr].
      apply rt_step. split; [apply Hsub; exact Hx|split; [exact Hcs'|exact Hxx']].
Qed.

Definition closed (X : list cand) : Prop :=
  forall x y, In x X -> In y cs -> E x y = true -> In y X.

Definition msr (cur : list cand) : nat := length (filter (fun y => memb y cur) cs).

Lemma step_fix_closed : forall cur, incl (step cur) cur -> closed cur.
Proof.
  intros cur Hfix x y Hx Hy Hxy. apply Hfix. apply step_In. split; [exact Hy|].
  right. exists x. split; assumption.
Qed.

Lemma closed_step : forall X, incl X cs -> closed X -> closed (step X) /\ incl (step X) X.
Proof.
  intros X Hsub Hcl.
  assert (Hfix : incl (step X) X).
  { intros y Hy. apply step_In in Hy. destruct Hy as [Hcs' [Hin|[x [Hx Hxy]]]]; [exact Hin|].
    eapply Hcl; eassumption. }
  split; [|exact Hfix]. intros x y Hx Hy Hxy. apply step_mono; [exact Hsub|].
  eapply Hcl; [apply Hfix; exact Hx|exact Hy|exact Hxy].
Qed.

Lemma closed_iter : forall n X, incl X cs -> closed X -> closed (iter n X).
Proof.
  intros n. induction n as [|n IH]; intros X Hsub Hcl; cbn [reach_iter]; [exact Hcl|].
  apply IH; [apply step_sub|]. apply closed_step; assumption.
Qed.

(* a step that is not yet a fixpoint strictly enlarges the set of collected members of cs *)
Lemma step_grows : forall cur, incl cur cs -> ~ incl (step cur) cur -> (msr cur < msr (step cur))%nat.
Proof.
  intros cur Hsub Hnot. unfold msr. apply filter_len_strict.
  - intros y Hy Hm. apply memb_In. apply step_mono; [exact Hsub|]. apply memb_In. exact Hm.
  - destruct (forallb (fun y => memb y cur) (step cur)) eqn:Hall.
    + exfalso. apply Hnot. intros y Hy. rewrite forallb_forall in Hall. apply memb_In. apply Hall. exact Hy.
    + assert (Hex : existsb (fun y => negb (memb y cur)) (step cur) = true).
      { clear -Hall. induction (step cur) as [|z l IH]; [discriminate|].
        cbn [forallb existsb] in *. destruct (memb z cur); cbn [negb andb orb] in *; [apply IH; exact Hall|reflexivity]. }
      apply existsb_exists in Hex. destruct Hex as [y [Hy Hm]]. apply negb_true_iff in Hm.
      exists y. split; [apply step_sub in Hy; exact Hy|]. split; [exact Hm|]. apply memb_In. exact Hy.
Qed.

Lemma incl_dec_step : forall cur, incl (step cur) cur \/ ~ incl (step cur) cur.
Proof.
  intros cur. destruct (forallb (fun y => memb y cur) (step cur)) eqn:Hall.
  - left. intros y Hy. rewrite forallb_forall in Hall. apply memb_In. apply Hall. exact Hy.
  - right. intros Hincl. apply not_true_iff_false in Hall. apply Hall. apply forallb_forall.
    intros y Hy. apply memb_In. apply Hincl. exact Hy.
Qed.

(* the fixpoint is reached within |cs| iterations (strictly growing subsets of cs) *)
Lemma iter_closed : forall n cur, incl cur cs -> (length cs <= n + msr cur)%nat -> closed (iter n cur).
Proof.
  intros n. induction n as [|n IH]; intros cur Hsub Hlen; cbn [reach_iter].
  - intros x y _ Hy _. apply memb_In. revert y Hy. apply filter_len_full. exact Hlen.
  - destruct (incl_dec_step cur) as [Hfix|Hnot].
    + apply closed_iter; [apply step_sub|]. apply closed_step; [exact Hsub|]. apply step_fix_closed. exact Hfix.
    + apply IH; [apply step_sub|]. pose proof (step_grows cur Hsub Hnot). lia.
Qed.

Lemma start_set : forall a, incl (filter (ceqb a) cs) cs /\ forall x, In x (filter (ceqb a) cs) <-> x = a /\ In a cs.
Proof.
  intros a. split.
  - intros x Hx. apply filter_In in Hx. tauto.
  - intros x. rewrite filter_In. split.
    + intros [Hx Hax]. apply ceqb_true_iff in Hax. subst x. tauto.
    + intros [-> Ha]. split; [exact Ha|apply ceqb_refl].
Qed.

Theorem has_path_iff : forall a b, hp a b = true <-> In a cs /\ reaches a b.
Proof.
  intros a b. unfold has_path. rewrite memb_In. destruct (start_set a) as [Hsub Hstart]. split.
  - intros Hb. destruct (iter_sound (length cs) _ b Hsub Hb) as [x [Hx Hr]].
    apply Hstart in Hx. destruct Hx as [-> Ha]. tauto.
  - intros [Ha Hr].
    assert (Hcl : closed (iter (length cs) (filter (ceqb a) cs))) by (apply iter_closed; [exact Hsub|lia]).
    assert (Ha' : In a (iter (length cs) (filter (ceqb a) cs))).
    { apply iter_mono; [exact Hsub|]. apply Hstart. tauto. }
    apply clos_rt_rtn1 in Hr. induction Hr as [|y z Hyz _ IH]; [exact Ha'|].
    destruct Hyz as [_ [Hz Hyz]]. eapply Hcl; eassumption.
Qed.

Lemma reaches_in : forall a b, In a cs -> reaches a b -> In b cs.
Proof.
  intros a b Ha Hr. apply clos_rt_rtn1 in Hr. induction Hr as [|y z Hyz _ _]; [exact Ha|]. apply Hyz.
Qed.

Lemma hp_in_l : forall a b, hp a b = true -> In a cs.
Proof. intros a b H. apply has_path_iff in H. tauto. Qed.

Lemma hp_in_r : forall a b, hp a b = true -> In b cs.
Proof. intros a b H. apply has_path_iff in H. destruct H as [Ha Hr]. eapply reaches_in; eassumption. Qed.

Lemma hp_refl : forall a, In a cs -> hp a a = true.
Proof. intros a Ha. apply has_path_iff. split; [exact Ha|apply rt_refl]. Qed.

Lemma hp_trans : forall a b c, hp a b = true -> hp b c = true -> hp a c = true.
Proof.
  intros a b c H1 H2. apply has_path_iff in H1. apply has_path_iff in H2. apply has_path_iff.
  split; [tauto|]. eapply rt_trans; [apply H1|apply H2].
Qed.

Lemma hp_edge : forall a b, In a cs -> In b cs -> E a b = true -> hp a b = true.
Proof. intros a b Ha Hb Hab. apply has_path_iff. split; [exact Ha|]. apply rt_step. repeat split; assumption. Qed.

(* a path whose endpoints lie on different sides of a set crosses it along an edge *)
Lemma path_crossing_aux : forall (P : cand -> Prop) x b, (forall c, P c \/ ~ P c) ->
  clos_refl_trans_1n cand edge_in x b -> forall a, hp a x = true -> ~ P x -> P b ->
  exists u v, In u cs /\ In v cs /\ E u v = true /\ ~ P u /\ P v /\ hp a u = true /\ hp v b = true.
Proof.
  intros P x b Pdec Hr. induction Hr as [x|x y z Hxy Hyz IH]; intros a Hax Hnx Hb; [contradiction|].
  destruct Hxy as [Hx [Hy Hxy]]. destruct (Pdec y) as [Py|Pny].
  - exists x, y. repeat split; try assumption.
    apply has_path_iff. split; [exact Hy|]. apply clos_rt1n_rt. exact Hyz.
  - apply IH; [|exact Pny|exact Hb]. eapply hp_trans; [exact Hax|]. apply hp_edge; assumption.
Qed.

Lemma path_crossing : forall (P : cand -> Prop) a b, (forall c, P c \/ ~ P c) ->
  hp a b = true -> ~ P a -> P b ->
  exists u v, In u cs /\ In v cs /\ E u v = true /\ ~ P u /\ P v /\ hp a u = true /\ hp v b = true.
Proof.
  intros P a b Pdec Hab Hna Hb. pose proof (hp_in_l a b Hab) as Ha.
  apply has_path_iff in Hab. destruct Hab as [_ Hr]. apply clos_rt_rt1n in Hr.
  apply (path_crossing_aux P a b Pdec Hr a); [apply hp_refl; exact Ha|exact Hna|exact Hb].
Qed.

End Graph.
