(* Proofs/C06_tiers.v — C06 parts 2-3: reachability in the beats-or-ties digraph ([has_path]),
   the structure of [tiers_of] in a semi-complete digraph, then the profile-level theorems
   (partition, domination, minimality, Smith set, Condorcet winner). *)
From VK Require Import Base Core STV Pairwise Rules PairwiseSpec ScoreSpec.
From VK.Proofs Require Import C12_expand Lib_rk Elect Lib_sets C06_pairwise.
From Coq Require Import Permutation Lia Lqa Setoid Morphisms Relations Sorting.Sorted.

(* ------------------------------------------------------------------ *)
(** * Generic list facts *)

Lemma filter_len_le_all : forall {A} (f : A -> bool) l, (length (filter f l) <= length l)%nat.
Proof.
  intros A f l. induction l as [|a l IH]; [apply le_n|].
  cbn [filter]. destruct (f a); cbn [length]; lia.
Qed.

Lemma filter_len_mono : forall {A} (f g : A -> bool) l,
  (forall x, In x l -> f x = true -> g x = true) ->
  (length (filter f l) <= length (filter g l))%nat.
Proof.
  intros A f g l. induction l as [|a l IH]; intros H; [apply le_n|].
  assert (IH' : (length (filter f l) <= length (filter g l))%nat).
  { apply IH. intros x Hx. apply H. right. exact Hx. }
  cbn [filter]. destruct (f a) eqn:Ef.
  - rewrite (H a (or_introl eq_refl) Ef). cbn [length]. lia.
  - destruct (g a); cbn [length]; lia.
Qed.

Lemma filter_len_strict : forall {A} (f g : A -> bool) l,
  (forall x, In x l -> f x = true -> g x = true) ->
  (exists x, In x l /\ f x = false /\ g x = true) ->
  (length (filter f l) < length (filter g l))%nat.
Proof.
  intros A f g l. induction l as [|a l IH]; intros H [x [Hx [Hfx Hgx]]]; [destruct Hx|].
  assert (Hle : (length (filter f l) <= length (filter g l))%nat).
  { apply filter_len_mono. intros y Hy. apply H. right. exact Hy. }
  cbn [filter]. destruct Hx as [<-|Hx].
  - rewrite Hfx, Hgx. cbn [length]. lia.
  - assert (IH' : (length (filter f l) < length (filter g l))%nat).
    { apply IH; [intros y Hy; apply H; right; exact Hy|]. exists x. auto. }
    destruct (f a) eqn:Ef.
    + rewrite (H a (or_introl eq_refl) Ef). cbn [length]. lia.
    + destruct (g a); cbn [length]; lia.
Qed.

Lemma filter_len_full : forall {A} (f : A -> bool) l,
  (length l <= length (filter f l))%nat -> forall x, In x l -> f x = true.
Proof.
  intros A f l. induction l as [|a l IH]; intros Hlen x Hx; [destruct Hx|].
  cbn [filter] in Hlen. pose proof (filter_len_le_all f l) as Hle. destruct (f a) eqn:Ef.
  - cbn [length] in Hlen. destruct Hx as [<-|Hx]; [exact Ef|]. apply IH; [lia|exact Hx].
  - cbn [length] in Hlen. lia.
Qed.

Lemma filter_len_split : forall {A} (g f : A -> bool) l,
  length (filter f l) =
  (length (filter (fun x => g x && f x) l) + length (filter (fun x => negb (g x) && f x) l))%nat.
Proof.
  intros A g f l. induction l as [|a l IH]; [reflexivity|].
  cbn [filter]. destruct (g a), (f a); cbn [andb negb length]; lia.
Qed.

(* insert_desc_nat keeps a strictly decreasing list strictly decreasing *)
Lemma insert_desc_nat_In : forall x l y, In y (insert_desc_nat x l) <-> y = x \/ In y l.
Proof.
  intros x l y. induction l as [|z l IH]; cbn [insert_desc_nat].
  - cbn [In]. intuition.
  - destruct (Nat.eqb x z) eqn:Exz.
    + apply Nat.eqb_eq in Exz. subst z. cbn [In]. intuition.
    + destruct (Nat.ltb z x); cbn [In]; [intuition|]. rewrite IH. intuition.
Qed.

Lemma insert_desc_nat_sorted : forall x l,
  StronglySorted gt l -> StronglySorted gt (insert_desc_nat x l).
Proof.
  intros x l H. induction H as [|z l Hs IH Hall]; cbn [insert_desc_nat].
  - constructor; [constructor|constructor].
  - destruct (Nat.eqb x z) eqn:Exz; [constructor; assumption|].
    apply Nat.eqb_neq in Exz. destruct (Nat.ltb z x) eqn:Elt.
    + apply Nat.ltb_lt in Elt. constructor; [constructor; assumption|].
      constructor; [lia|]. rewrite Forall_forall in Hall |- *. intros y Hy. specialize (Hall y Hy). lia.
    + apply Nat.ltb_ge in Elt. constructor; [exact IH|].
      rewrite Forall_forall in Hall |- *. intros y Hy. apply insert_desc_nat_In in Hy.
      destruct Hy as [->|Hy]; [lia|apply Hall; exact Hy].
Qed.

Lemma sorted_gt_NoDup : forall l, StronglySorted gt l -> NoDup l.
Proof.
  intros l H. induction H as [|z l Hs IH Hall]; constructor; [|exact IH].
  intros Hin. rewrite Forall_forall in Hall. specialize (Hall z Hin). lia.
Qed.

(* grouping a list by the values of a key: a partition *)
Lemma group_by_perm : forall {A} (f : A -> nat) (l : list A) (ks : list nat),
  NoDup ks ->
  Permutation (concat (map (fun k => filter (fun c => Nat.eqb (f c) k) l) ks))
              (filter (fun c => existsb (Nat.eqb (f c)) ks) l).
Proof.
  intros A f l ks Hnd. induction Hnd as [|k ks Hk _ IH].
  - cbn [map concat existsb]. rewrite filter_all_false; [constructor|reflexivity].
  - cbn [map concat existsb]. eapply Permutation_trans; [apply Permutation_app_head; exact IH|].
    apply filter_disjoint_or_perm. intros a _ Ha. apply Nat.eqb_eq in Ha.
    apply not_true_is_false. intros Hex. apply existsb_exists in Hex. destruct Hex as [k' [Hk' E]].
    apply Nat.eqb_eq in E. subst. contradiction.
Qed.

Section Graph.
Variable cand : Type.
Variable ceqb : cand -> cand -> bool.
Hypothesis ceqb_spec : forall a b, reflect (a = b) (ceqb a b).
Variable es : list (cand * cand * Q).
Variable cs : list cand.

Notation memb := (memb cand ceqb).
Notation E := (edge cand ceqb es).
Notation step := (step_reach cand ceqb es cs).
Notation iter := (fun n => reach_iter cand ceqb n es cs).
Notation hp := (has_path cand ceqb es cs).
Notation bsz := (beat_size cand ceqb es cs).
Notation tiers := (tiers_of cand ceqb es cs).
Notation reaches := (reaches cand E cs).
Notation edge_in := (edge_in cand E cs).

Local Notation ceqb_refl := (ceqb_refl cand ceqb ceqb_spec).
Local Notation ceqb_true_iff := (ceqb_true_iff cand ceqb ceqb_spec).
Local Notation memb_In := (memb_In cand ceqb ceqb_spec).
Local Notation memb_false_iff := (memb_false_iff cand ceqb ceqb_spec).

(* ------------------------------------------------------------------ *)
(** * Reachability: [reach_iter] with fuel [length cs] computes the reflexive-transitive closure *)

Lemma step_In : forall cur y,
  In y (step cur) <-> In y cs /\ (In y cur \/ exists x, In x cur /\ E x y = true).
Proof.
  intros cur y. unfold step_reach. rewrite filter_In, orb_true_iff, memb_In, existsb_exists. tauto.
Qed.

Lemma step_sub : forall cur, incl (step cur) cs.
Proof. intros cur y Hy. apply step_In in Hy. tauto. Qed.

Lemma step_mono : forall cur, incl cur cs -> incl cur (step cur).
Proof. intros cur Hsub y Hy. apply step_In. split; [apply Hsub; exact Hy|left; exact Hy]. Qed.

Lemma iter_sub : forall n cur, incl cur cs -> incl (iter n cur) cs.
Proof.
  intros n. induction n as [|n IH]; intros cur Hsub; cbn [reach_iter]; [exact Hsub|].
  apply IH. apply step_sub.
Qed.

Lemma iter_mono : forall n cur, incl cur cs -> incl cur (iter n cur).
Proof.
  intros n. induction n as [|n IH]; intros cur Hsub; cbn [reach_iter]; [apply incl_refl|].
  eapply incl_tran; [apply step_mono; exact Hsub|]. apply IH. apply step_sub.
Qed.

(* soundness: whatever is collected is reachable from the start set *)
Lemma iter_sound : forall n cur y, incl cur cs -> In y (iter n cur) ->
  exists x, In x cur /\ reaches x y.
Proof.
  intros n. induction n as [|n IH]; intros cur y Hsub Hy; cbn [reach_iter] in Hy.
  - exists y. split; [exact Hy|apply rt_refl].
  - destruct (IH (step cur) y (step_sub cur) Hy) as [x' [Hx' Hr]].
    apply step_In in Hx'. destruct Hx' as [Hcs' [Hin|[x [Hx Hxx']]]].
    + exists x'. split; [exact Hin|exact Hr].
    + exists x. split; [exact Hx|]. eapply rt_trans; [|exact Hr].
      apply rt_step. split; [apply Hsub; exact Hx|split; [exact Hcs'|exact Hxx']].
Qed.

Definition closed (X : list cand) : Prop :=
  forall x y, In x X -> In y cs -> E x y = true -> In y X.

Definition msr (cur : list cand) : nat := length (filter (fun y => memb y cur) cs).

Lemma step_fix_closed : forall cur, incl (step cur) cur -> closed cur.
Proof.
  intros cur Hfix x y Hx Hy Hxy. apply Hfix. apply step_In. split; [exact Hy|].
  right. exists x. split; assumption.
Qed.

Lemma closed_step : forall X, incl X cs -> closed X -> closed (step X) /\ incl (step X) X.
Proof.
  intros X Hsub Hcl.
  assert (Hfix : incl (step X) X).
  { intros y Hy. apply step_In in Hy. destruct Hy as [Hcs' [Hin|[x [Hx Hxy]]]]; [exact Hin|].
    eapply Hcl; eassumption. }
  split; [|exact Hfix]. intros x y Hx Hy Hxy. apply step_mono; [exact Hsub|].
  eapply Hcl; [apply Hfix; exact Hx|exact Hy|exact Hxy].
Qed.

Lemma closed_iter : forall n X, incl X cs -> closed X -> closed (iter n X).
Proof.
  intros n. induction n as [|n IH]; intros X Hsub Hcl; cbn [reach_iter]; [exact Hcl|].
  apply IH; [apply step_sub|]. apply closed_step; assumption.
Qed.

(* a step that is not yet a fixpoint strictly enlarges the set of collected members of cs *)
Lemma step_grows : forall cur, incl cur cs -> ~ incl (step cur) cur -> (msr cur < msr (step cur))%nat.
Proof.
  intros cur Hsub Hnot. unfold msr. apply filter_len_strict.
  - intros y Hy Hm. apply memb_In. apply step_mono; [exact Hsub|]. apply memb_In. exact Hm.
  - destruct (forallb (fun y => memb y cur) (step cur)) eqn:Hall.
    + exfalso. apply Hnot. intros y Hy. rewrite forallb_forall in Hall. apply memb_In. apply Hall. exact Hy.
    + assert (Hex : existsb (fun y => negb (memb y cur)) (step cur) = true).
      { clear -Hall. induction (step cur) as [|z l IH]; [discriminate|].
        cbn [forallb existsb] in *. destruct (memb z cur); cbn [negb andb orb] in *; [apply IH; exact Hall|reflexivity]. }
      apply existsb_exists in Hex. destruct Hex as [y [Hy Hm]]. apply negb_true_iff in Hm.
      exists y. split; [apply step_sub in Hy; exact Hy|]. split; [exact Hm|]. apply memb_In. exact Hy.
Qed.

Lemma incl_dec_step : forall cur, incl (step cur) cur \/ ~ incl (step cur) cur.
Proof.
  intros cur. destruct (forallb (fun y => memb y cur) (step cur)) eqn:Hall.
  - left. intros y Hy. rewrite forallb_forall in Hall. apply memb_In. apply Hall. exact Hy.
  - right. intros Hincl. apply not_true_iff_false in Hall. apply Hall. apply forallb_forall.
    intros y Hy. apply memb_In. apply Hincl. exact Hy.
Qed.

(* the fixpoint is reached within |cs| iterations (strictly growing subsets of cs) *)
Lemma iter_closed : forall n cur, incl cur cs -> (length cs <= n + msr cur)%nat -> closed (iter n cur).
Proof.
  intros n. induction n as [|n IH]; intros cur Hsub Hlen; cbn [reach_iter].
  - intros x y _ Hy _. apply memb_In. revert y Hy. apply filter_len_full. exact Hlen.
  - destruct (incl_dec_step cur) as [Hfix|Hnot].
    + apply closed_iter; [apply step_sub|]. apply closed_step; [exact Hsub|]. apply step_fix_closed. exact Hfix.
    + apply IH; [apply step_sub|]. pose proof (step_grows cur Hsub Hnot). lia.
Qed.

Lemma start_set : forall a, incl (filter (ceqb a) cs) cs /\ forall x, In x (filter (ceqb a) cs) <-> x = a /\ In a cs.
Proof.
  intros a. split.
  - intros x Hx. apply filter_In in Hx. tauto.
  - intros x. rewrite filter_In. split.
    + intros [Hx Hax]. apply ceqb_true_iff in Hax. subst x. tauto.
    + intros [-> Ha]. split; [exact Ha|apply ceqb_refl].
Qed.

Theorem has_path_iff : forall a b, hp a b = true <-> In a cs /\ reaches a b.
Proof.
  intros a b. unfold has_path. rewrite memb_In. destruct (start_set a) as [Hsub Hstart]. split.
  - intros Hb. destruct (iter_sound (length cs) _ b Hsub Hb) as [x [Hx Hr]].
    apply Hstart in Hx. destruct Hx as [-> Ha]. tauto.
  - intros [Ha Hr].
    assert (Hcl : closed (iter (length cs) (filter (ceqb a) cs))) by (apply iter_closed; [exact Hsub|lia]).
    assert (Ha' : In a (iter (length cs) (filter (ceqb a) cs))).
    { apply iter_mono; [exact Hsub|]. apply Hstart. tauto. }
    apply clos_rt_rtn1 in Hr. induction Hr as [|y z Hyz _ IH]; [exact Ha'|].
    destruct Hyz as [_ [Hz Hyz]]. eapply Hcl; eassumption.
Qed.

Lemma reaches_in : forall a b, In a cs -> reaches a b -> In b cs.
Proof.
  intros a b Ha Hr. apply clos_rt_rtn1 in Hr. induction Hr as [|y z Hyz _ _]; [exact Ha|]. apply Hyz.
Qed.

Lemma hp_in_l : forall a b, hp a b = true -> In a cs.
Proof. intros a b H. apply has_path_iff in H. tauto. Qed.

Lemma hp_in_r : forall a b, hp a b = true -> In b cs.
Proof. intros a b H. apply has_path_iff in H. destruct H as [Ha Hr]. eapply reaches_in; eassumption. Qed.

Lemma hp_refl : forall a, In a cs -> hp a a = true.
Proof. intros a Ha. apply has_path_iff. split; [exact Ha|apply rt_refl]. Qed.

Lemma hp_trans : forall a b c, hp a b = true -> hp b c = true -> hp a c = true.
Proof.
  intros a b c H1 H2. apply has_path_iff in H1. apply has_path_iff in H2. apply has_path_iff.
  split; [tauto|]. eapply rt_trans; [apply H1|apply H2].
Qed.

Lemma hp_edge : forall a b, In a cs -> In b cs -> E a b = true -> hp a b = true.
Proof. intros a b Ha Hb Hab. apply has_path_iff. split; [exact Ha|]. apply rt_step. repeat split; assumption. Qed.

(* a path whose endpoints lie on different sides of a set crosses it along an edge *)
Lemma path_crossing_aux : forall (P : cand -> Prop) x b, (forall c, P c \/ ~ P c) ->
  clos_refl_trans_1n cand edge_in x b -> forall a, hp a x = true -> ~ P x -> P b ->
  exists u v, In u cs /\ In v cs /\ E u v = true /\ ~ P u /\ P v /\ hp a u = true /\ hp v b = true.
Proof.
  intros P x b Pdec Hr. induction Hr as [x|x y z Hxy Hyz IH]; intros a Hax Hnx Hb; [contradiction|].
  destruct Hxy as [Hx [Hy Hxy]]. destruct (Pdec y) as [Py|Pny].
  - exists x, y. repeat split; try assumption.
    apply has_path_iff. split; [exact Hy|]. apply clos_rt1n_rt. exact Hyz.
  - apply IH; [|exact Pny|exact Hb]. eapply hp_trans; [exact Hax|]. apply hp_edge; assumption.
Qed.

Lemma path_crossing : forall (P : cand -> Prop) a b, (forall c, P c \/ ~ P c) ->
  hp a b = true -> ~ P a -> P b ->
  exists u v, In u cs /\ In v cs /\ E u v = true /\ ~ P u /\ P v /\ hp a u = true /\ hp v b = true.
Proof.
  intros P a b Pdec Hab Hna Hb. pose proof (hp_in_l a b Hab) as Ha.
  apply has_path_iff in Hab. destruct Hab as [_ Hr]. apply clos_rt_rt1n in Hr.
  apply (path_crossing_aux P a b Pdec Hr a); [apply hp_refl; exact Ha|exact Hna|exact Hb].
Qed.

(* ------------------------------------------------------------------ *)
(** * Tiers of a semi-complete digraph on a duplicate-free ground set *)

Section Semi.
Hypothesis Hcs : NoDup cs.
Hypothesis Hsemi : forall a b, In a cs -> In b cs -> a <> b -> E a b = true \/ E b a = true.

Definition rcount (a : cand) : nat := length (filter (hp a) cs).

Lemma filter_ceqb_len1 : forall a (l : list cand), NoDup l -> In a l -> length (filter (ceqb a) l) = 1%nat.
Proof.
  intros a l Hnd. induction Hnd as [|x l Hx _ IH]; intros Ha; [destruct Ha|].
  cbn [filter]. destruct (ceqb_spec a x) as [<-|Hax].
  - cbn [length]. f_equal. rewrite filter_all_false; [reflexivity|].
    intros y Hy. destruct (ceqb_spec a y) as [<-|]; [contradiction|reflexivity].
  - apply IH. destruct Ha as [Ha|Ha]; [congruence|exact Ha].
Qed.

(* beat_size c = |Reach(c) \ {c}| *)
Lemma bsz_succ : forall a, In a cs -> S (bsz a) = rcount a.
Proof.
  intros a Ha. unfold rcount, beat_size. rewrite (filter_len_split (ceqb a) (hp a) cs).
  rewrite (Lib_rk.filter_ext_in cand (fun x => ceqb a x && hp a x) (ceqb a)).
  - rewrite filter_ceqb_len1 by assumption. reflexivity.
  - intros x _. destruct (ceqb_spec a x) as [<-|]; [|reflexivity]. rewrite hp_refl by exact Ha. reflexivity.
Qed.

Lemma hp_total : forall a b, In a cs -> In b cs -> hp a b = true \/ hp b a = true.
Proof.
  intros a b Ha Hb. destruct (cand_eq_dec cand ceqb ceqb_spec a b) as [->|Hab].
  - left. apply hp_refl. exact Hb.
  - destruct (Hsemi a b Ha Hb Hab) as [H|H]; [left|right]; apply hp_edge; assumption.
Qed.

Lemma rcount_le : forall a b, hp a b = true -> (rcount b <= rcount a)%nat.
Proof.
  intros a b Hab. unfold rcount. apply filter_len_mono. intros x _ Hbx. eapply hp_trans; eassumption.
Qed.

Lemma rcount_lt : forall a b, hp a b = true -> hp b a = false -> (rcount b < rcount a)%nat.
Proof.
  intros a b Hab Hba. unfold rcount. apply filter_len_strict.
  - intros x _ Hbx. eapply hp_trans; eassumption.
  - exists a. pose proof (hp_in_l a b Hab) as Ha. split; [exact Ha|]. split; [exact Hba|apply hp_refl; exact Ha].
Qed.

Theorem bsz_lt_iff : forall a b, In a cs -> In b cs ->
  ((bsz b < bsz a)%nat <-> hp a b = true /\ hp b a = false).
Proof.
  intros a b Ha Hb. pose proof (bsz_succ a Ha) as Sa. pose proof (bsz_succ b Hb) as Sb.
  destruct (hp a b) eqn:Hab; destruct (hp b a) eqn:Hba.
  - pose proof (rcount_le a b Hab). pose proof (rcount_le b a Hba). split; [lia|intros [_ H']; discriminate].
  - pose proof (rcount_lt a b Hab Hba). split; [auto|lia].
  - pose proof (rcount_lt b a Hba Hab). split; [lia|intros [H' _]; discriminate].
  - destruct (hp_total a b Ha Hb); congruence.
Qed.

Theorem bsz_eq_iff : forall a b, In a cs -> In b cs ->
  (bsz a = bsz b <-> hp a b = true /\ hp b a = true).
Proof.
  intros a b Ha Hb. pose proof (bsz_succ a Ha) as Sa. pose proof (bsz_succ b Hb) as Sb.
  destruct (hp a b) eqn:Hab; destruct (hp b a) eqn:Hba.
  - pose proof (rcount_le a b Hab). pose proof (rcount_le b a Hba). split; [auto|lia].
  - pose proof (rcount_lt a b Hab Hba). split; [lia|intros [_ H']; discriminate].
  - pose proof (rcount_lt b a Hba Hab). split; [lia|intros [H' _]; discriminate].
  - destruct (hp_total a b Ha Hb); congruence.
Qed.

Lemma bsz_le_hp : forall a b, In a cs -> In b cs -> (bsz b <= bsz a)%nat -> hp a b = true.
Proof.
  intros a b Ha Hb Hle. destruct (Nat.eq_dec (bsz a) (bsz b)) as [He|Hne].
  - apply (bsz_eq_iff a b Ha Hb) in He. tauto.
  - assert (Hlt : (bsz b < bsz a)%nat) by lia. apply (bsz_lt_iff a b Ha Hb) in Hlt. tauto.
Qed.

(* the distinct sizes, in decreasing order *)
Definition sizes : list nat := fold_right insert_desc_nat [] (map bsz cs).

Lemma fold_insert_In : forall l k, In k (fold_right insert_desc_nat [] l) <-> In k l.
Proof.
  intros l k. induction l as [|x l IH]; cbn [fold_right]; [tauto|].
  rewrite insert_desc_nat_In, IH. cbn [In]. intuition.
Qed.

Lemma fold_insert_sorted : forall l, StronglySorted gt (fold_right insert_desc_nat [] l).
Proof.
  intros l. induction l as [|x l IH]; cbn [fold_right]; [constructor|].
  apply insert_desc_nat_sorted. exact IH.
Qed.

Lemma sizes_In : forall k, In k sizes <-> exists c, In c cs /\ bsz c = k.
Proof.
  intros k. unfold sizes. rewrite fold_insert_In, in_map_iff. split; intros [c [H1 H2]]; exists c; tauto.
Qed.

Lemma sizes_sorted : StronglySorted gt sizes.
Proof. apply fold_insert_sorted. Qed.

Definition tier_at (k : nat) : list cand := filter (fun c => Nat.eqb (bsz c) k) cs.

Lemma tiers_unfold : tiers = map tier_at sizes.
Proof. reflexivity. Qed.

Lemma tier_at_In : forall k c, In c (tier_at k) <-> In c cs /\ bsz c = k.
Proof. intros k c. unfold tier_at. rewrite filter_In, Nat.eqb_eq. tauto. Qed.

Lemma tiers_In : forall T, In T tiers <-> exists k, In k sizes /\ T = tier_at k.
Proof.
  intros T. rewrite tiers_unfold, in_map_iff. split; intros [k [H1 H2]]; exists k; split; auto.
Qed.

Theorem tiers_perm : Permutation (concat tiers) cs.
Proof.
  rewrite tiers_unfold. unfold tier_at.
  eapply Permutation_trans; [apply group_by_perm; apply sorted_gt_NoDup; exact sizes_sorted|].
  rewrite filter_all_true; [apply Permutation_refl|].
  intros c Hc. apply existsb_exists. exists (bsz c). split; [|apply Nat.eqb_refl].
  apply sizes_In. exists c. auto.
Qed.

Theorem tiers_nonempty : forall T, In T tiers -> T <> [].
Proof.
  intros T HT. apply tiers_In in HT. destruct HT as [k [Hk ->]]. apply sizes_In in Hk.
  destruct Hk as [c [Hc Hck]]. intros Hnil.
  assert (Hin : In c (tier_at k)) by (apply tier_at_In; auto). rewrite Hnil in Hin. destruct Hin.
Qed.

Theorem tiers_NoDup : NoDup (concat tiers).
Proof. eapply Permutation_NoDup; [apply Permutation_sym; exact tiers_perm|exact Hcs]. Qed.

Lemma tiers_sub : forall T c, In T tiers -> In c T -> In c cs.
Proof.
  intros T c HT Hc. apply tiers_In in HT. destruct HT as [k [_ ->]]. apply tier_at_In in Hc. tauto.
Qed.

Lemma tiers_cover : forall c, In c cs -> exists T, In T tiers /\ In c T.
Proof.
  intros c Hc. apply (Permutation_in _ (Permutation_sym tiers_perm)) in Hc.
  apply in_concat_iff in Hc. exact Hc.
Qed.

Lemma tiers_same : forall T a b, In T tiers -> In a T -> In b T -> bsz a = bsz b.
Proof.
  intros T a b HT Ha Hb. apply tiers_In in HT. destruct HT as [k [_ ->]].
  apply tier_at_In in Ha. apply tier_at_In in Hb. destruct Ha as [_ ->]. destruct Hb as [_ ->]. reflexivity.
Qed.

Lemma tiers_earlier : forall T1 T2 a b, earlier tiers T1 T2 -> In a T1 -> In b T2 ->
  (bsz b < bsz a)%nat.
Proof.
  intros T1 T2 a b [pre [mid [post Heq]]] Ha Hb. rewrite tiers_unfold in Heq.
  apply map_eq_app in Heq. destruct Heq as [pre' [l1 [Hs [_ Heq]]]].
  apply map_eq_cons in Heq. destruct Heq as [k1 [l2 [-> [<- Heq]]]].
  apply map_eq_app in Heq. destruct Heq as [mid' [l3 [-> [_ Heq]]]].
  apply map_eq_cons in Heq. destruct Heq as [k2 [post' [-> [<- _]]]].
  pose proof sizes_sorted as Hsort. rewrite Hs in Hsort. apply SS_pair in Hsort.
  apply tier_at_In in Ha. apply tier_at_In in Hb. destruct Ha as [_ ->]. destruct Hb as [_ ->]. exact Hsort.
Qed.

Lemma earlier_in : forall {A} (l : list A) x y, earlier l x y -> In x l /\ In y l.
Proof.
  intros A l x y [pre [mid [post ->]]]. split.
  - apply in_or_app. right. left. reflexivity.
  - apply in_or_app. right. right. apply in_or_app. right. left. reflexivity.
Qed.

(* two tiers are equal or one is earlier than the other *)
Lemma in_two : forall {A} (l : list A) x y, In x l -> In y l -> x = y \/ earlier l x y \/ earlier l y x.
Proof.
  intros A l x y Hx Hy. apply in_split in Hx. destruct Hx as [l1 [l2 ->]].
  apply in_app_or in Hy. destruct Hy as [Hy|[Hy|Hy]].
  - right. right. apply in_split in Hy. destruct Hy as [l3 [l4 ->]].
    exists l3, l4, l2. rewrite <- app_assoc. reflexivity.
  - left. exact Hy.
  - right. left. apply in_split in Hy. destruct Hy as [l3 [l4 ->]]. exists l1, l3, l4. reflexivity.
Qed.

Theorem tiers_disjoint : forall T1 T2 c, earlier tiers T1 T2 -> In c T1 -> In c T2 -> False.
Proof.
  intros T1 T2 c He H1 H2. pose proof (tiers_earlier T1 T2 c c He H1 H2). lia.
Qed.

(* in terms of reachability *)
Lemma tier_later_hp : forall T1 T2 a b, earlier tiers T1 T2 -> In a T1 -> In b T2 ->
  hp a b = true /\ hp b a = false.
Proof.
  intros T1 T2 a b He Ha Hb. destruct (earlier_in _ _ _ He) as [HT1 HT2].
  apply bsz_lt_iff; [exact (tiers_sub T1 a HT1 Ha)|exact (tiers_sub T2 b HT2 Hb)|].
  exact (tiers_earlier T1 T2 a b He Ha Hb).
Qed.

Lemma tier_same_hp : forall T a b, In T tiers -> In a T -> In b T -> hp a b = true.
Proof.
  intros T a b HT Ha Hb.
  apply (bsz_eq_iff a b); [exact (tiers_sub T a HT Ha)|exact (tiers_sub T b HT Hb)|].
  exact (tiers_same T a b HT Ha Hb).
Qed.

Lemma tier_mutual_in : forall T a x, In T tiers -> In a T -> hp a x = true -> hp x a = true -> In x T.
Proof.
  intros T a x HT Ha Hax Hxa. pose proof (tiers_sub T a HT Ha) as Hacs. pose proof (hp_in_l x a Hxa) as Hxcs.
  apply tiers_In in HT. destruct HT as [k [_ ->]]. apply tier_at_In in Ha. apply tier_at_In.
  split; [exact Hxcs|]. destruct Ha as [_ <-]. symmetry. apply bsz_eq_iff; auto.
Qed.

(* every member of an earlier tier has an edge to, and no edge from, every member of a later tier *)
Theorem tiers_dominate_edges : forall T1 T2 a b, earlier tiers T1 T2 -> In a T1 -> In b T2 ->
  E a b = true /\ E b a = false.
Proof.
  intros T1 T2 a b He Ha Hb. destruct (tier_later_hp T1 T2 a b He Ha Hb) as [Hab Hba].
  destruct (earlier_in _ _ _ He) as [HT1 HT2].
  pose proof (tiers_sub T1 a HT1 Ha) as Hacs. pose proof (tiers_sub T2 b HT2 Hb) as Hbcs.
  assert (Hnba : E b a = false).
  { destruct (E b a) eqn:Eba; [|reflexivity]. rewrite (hp_edge b a Hbcs Hacs Eba) in Hba. discriminate. }
  split; [|exact Hnba].
  assert (Hne : a <> b). { intros ->. rewrite Hab in Hba. discriminate. }
  destruct (Hsemi a b Hacs Hbcs Hne) as [H|H]; [exact H|congruence].
Qed.

(* a tier cannot be split into two parts with no edge from the second to the first *)
Theorem tiers_minimal_edges : forall T T1 T2 a1 b2, In T tiers ->
  (forall c, In c T <-> In c T1 \/ In c T2) ->
  (forall c, In c T1 -> In c T2 -> False) ->
  In a1 T1 -> In b2 T2 ->
  (forall a b, In a T1 -> In b T2 -> E b a = false) -> False.
Proof.
  intros T T1 T2 a1 b2 HT Hsplit Hdisj Ha1 Hb2 Hno.
  assert (Ha1T : In a1 T) by (apply Hsplit; left; exact Ha1).
  assert (Hb2T : In b2 T) by (apply Hsplit; right; exact Hb2).
  pose proof (tier_same_hp T b2 a1 HT Hb2T Ha1T) as Hba.
  pose proof (tier_same_hp T a1 b2 HT Ha1T Hb2T) as Hab.
  destruct (path_crossing (fun x => In x T1) b2 a1) as [u [v [Hu [Hv [Huv [Hnu [Hv1 [Hbu Hva]]]]]]]].
  - intros c. destruct (in_dec (cand_eq_dec cand ceqb ceqb_spec) c T1); [left|right]; assumption.
  - exact Hba.
  - intros H. exact (Hdisj b2 H Hb2).
  - exact Ha1.
  - assert (HuT : In u T).
    { apply (tier_mutual_in T b2 u HT Hb2T Hbu).
      eapply hp_trans; [apply hp_edge; eassumption|]. eapply hp_trans; eassumption. }
    apply Hsplit in HuT. destruct HuT as [Hu1|Hu2]; [contradiction|].
    rewrite (Hno v u Hv1 Hu2) in Huv. discriminate.
Qed.

(* the top tier *)
Theorem top_dominates_edges : forall T0 rest a b, tiers = T0 :: rest ->
  In a T0 -> In b cs -> ~ In b T0 -> E a b = true /\ E b a = false.
Proof.
  intros T0 rest a b Heq Ha Hb Hnb. destruct (tiers_cover b Hb) as [T [HT HbT]].
  rewrite Heq in HT. destruct HT as [<-|HT]; [contradiction|].
  apply in_split in HT. destruct HT as [mid [post ->]].
  apply (tiers_dominate_edges T0 T a b); [|exact Ha|exact HbT].
  exists [], mid, post. exact Heq.
Qed.

Lemma top_bsz_max : forall T0 rest a b, tiers = T0 :: rest -> In a T0 -> In b cs -> (bsz b <= bsz a)%nat.
Proof.
  intros T0 rest a b Heq Ha Hb. destruct (tiers_cover b Hb) as [T [HT HbT]].
  assert (HT0 : In T0 tiers) by (rewrite Heq; left; reflexivity).
  rewrite Heq in HT. destruct HT as [<-|HT].
  - rewrite (tiers_same T0 a b HT0 Ha HbT). apply le_n.
  - apply in_split in HT. destruct HT as [mid [post ->]].
    assert (He : earlier tiers T0 T) by (exists [], mid, post; exact Heq).
    pose proof (tiers_earlier T0 T a b He Ha HbT). lia.
Qed.

Theorem top_least_edges : forall T0 rest D d, tiers = T0 :: rest ->
  incl D cs -> In d D ->
  (forall a b, In a D -> In b cs -> ~ In b D -> E b a = false) ->
  incl T0 D.
Proof.
  intros T0 rest D d Heq HD Hd Hdom x Hx.
  destruct (in_dec (cand_eq_dec cand ceqb ceqb_spec) x D) as [Hin|Hnin]; [exact Hin|exfalso].
  assert (HT0 : In T0 tiers) by (rewrite Heq; left; reflexivity).
  pose proof (tiers_sub T0 x HT0 Hx) as Hxcs.
  assert (Hxd : hp x d = true).
  { apply bsz_le_hp; [exact Hxcs|apply HD; exact Hd|]. eapply top_bsz_max; [exact Heq|exact Hx|apply HD; exact Hd]. }
  destruct (path_crossing (fun c => In c D) x d) as [u [v [Hu [Hv [Huv [Hnu [HvD _]]]]]]].
  - intros c. destruct (in_dec (cand_eq_dec cand ceqb ceqb_spec) c D); [left|right]; assumption.
  - exact Hxd.
  - exact Hnin.
  - exact Hd.
  - rewrite (Hdom v u HvD Hu Hnu) in Huv. discriminate.
Qed.

Lemma tiers_top_exists : cs <> [] -> exists T0 rest, tiers = T0 :: rest.
Proof.
  intros Hne.
  assert (Hex : exists c, In c cs).
  { clear -Hne. destruct cs as [|c l]; [congruence|]. exists c. left. reflexivity. }
  destruct Hex as [c Hc]. destruct (tiers_cover c Hc) as [T [HT _]].
  destruct tiers as [|T0 rest]; [destruct HT|]. exists T0, rest. reflexivity.
Qed.

Lemma tier_NoDup : forall T, In T tiers -> NoDup T.
Proof.
  intros T HT. apply tiers_In in HT. destruct HT as [k [_ ->]]. apply NoDup_filter. exact Hcs.
Qed.

Definition cw_edges (c : cand) : Prop := In c cs /\ forall d, In d cs -> d <> c -> E d c = false.

Theorem top_of_cw : forall T0 rest c, tiers = T0 :: rest -> cw_edges c -> T0 = [c].
Proof.
  intros T0 rest c Heq [Hc Hcw].
  assert (HT0 : In T0 tiers) by (rewrite Heq; left; reflexivity).
  assert (Hincl : incl T0 [c]).
  { apply (top_least_edges T0 rest [c] c Heq).
    - intros x [<-|[]]. exact Hc.
    - left. reflexivity.
    - intros a b [<-|[]] Hb Hnb. apply Hcw; [exact Hb|]. intros ->. apply Hnb. left. reflexivity. }
  pose proof (tiers_nonempty T0 HT0) as Hne. pose proof (tier_NoDup T0 HT0) as Hnd.
  destruct T0 as [|x T0']; [congruence|].
  assert (Hx : x = c). { destruct (Hincl x (or_introl eq_refl)) as [H|[]]. symmetry. exact H. }
  subst x. f_equal. destruct T0' as [|y T0'']; [reflexivity|].
  exfalso. inversion Hnd as [|? ? Hnotin _]; subst. apply Hnotin.
  destruct (Hincl y (or_intror (or_introl eq_refl))) as [H|[]]. subst y. left. reflexivity.
Qed.

Theorem cw_of_top : forall T0 rest c, tiers = T0 :: rest -> T0 = [c] -> cw_edges c.
Proof.
  intros T0 rest c Heq ->.
  assert (HT0 : In [c] tiers) by (rewrite Heq; left; reflexivity).
  split; [apply (tiers_sub [c] c HT0); left; reflexivity|].
  intros d Hd Hdc. apply (top_dominates_edges [c] rest c d Heq); [left; reflexivity|exact Hd|].
  intros [H|[]]. congruence.
Qed.

End Semi.

End Graph.

(* ------------------------------------------------------------------ *)
(** * The dominating tiers of an untied profile *)

Section TiersOfProfile.
Variable cand : Type.
Variable ceqb : cand -> cand -> bool.
Hypothesis ceqb_spec : forall a b, reflect (a = b) (ceqb a b).

Notation profile := (profile cand).
Notation ranking := (ranking cand).
Notation pref_weight := (pref_weight cand ceqb).
Notation beats := (beats cand ceqb).
Notation untied_profile := (untied_profile cand).
Notation ballot_fill := (ballot_fill cand ceqb).
Notation pairwise_entries := (pairwise_entries cand ceqb).
Notation edge := (edge cand ceqb).
Notation tiers_of := (tiers_of cand ceqb).
Notation dominating_tiers := (dominating_tiers cand ceqb).
Notation has_condorcet_winner := (has_condorcet_winner cand ceqb).
Notation dominating := (dominating cand ceqb).
Notation condorcet_winner := (condorcet_winner cand ceqb).

Variable p : profile.
Hypothesis Hp : untied_profile p.

Lemma dominating_tiers_unfold : forall fp, ballot_fill p = inl fp ->
  dominating_tiers p = inl (tiers_of (pairwise_entries (ballots fp) (cands fp)) (cands fp)).
Proof.
  intros fp Hfp. unfold Pairwise.dominating_tiers, Pairwise.pairwise_graph. rewrite Hfp. reflexivity.
Qed.

Theorem dominating_tiers_total : exists ts, dominating_tiers p = inl ts.
Proof.
  destruct (c06_fill_total_proof cand ceqb ceqb_spec p Hp) as [fp Hfp].
  eexists. apply dominating_tiers_unfold. exact Hfp.
Qed.

Lemma dominating_tiers_inv : forall ts, dominating_tiers p = inl ts ->
  exists fp, ballot_fill p = inl fp /\
             ts = tiers_of (pairwise_entries (ballots fp) (cands fp)) (cands fp).
Proof.
  intros ts Ht. destruct (c06_fill_total_proof cand ceqb ceqb_spec p Hp) as [fp Hfp].
  exists fp. split; [exact Hfp|]. rewrite (dominating_tiers_unfold fp Hfp) in Ht. injection Ht as <-. reflexivity.
Qed.

Section WithFill.
Variable fp : profile.
Hypothesis Hfp : ballot_fill p = inl fp.

Let es := pairwise_entries (ballots fp) (cands fp).
Let cs := cands fp.

Lemma cs_NoDup : NoDup cs.
Proof. exact (fp_cands_NoDup cand ceqb ceqb_spec p fp Hp Hfp). Qed.

Lemma cs_In : forall c, In c cs <-> In c (cands p).
Proof. exact (fp_cands_In cand ceqb ceqb_spec p fp Hp Hfp). Qed.

Lemma es_semi : forall a b, In a cs -> In b cs -> a <> b -> edge es a b = true \/ edge es b a = true.
Proof.
  intros a b Ha Hb Hab. apply cs_In in Ha. apply cs_In in Hb.
  destruct (Qlt_le_dec (pref_weight (ballots p) a b) (pref_weight (ballots p) b a)) as [Hlt|Hle].
  - right. apply (c06_edge_iff_proof cand ceqb ceqb_spec p fp Hp Hfp). repeat split; auto. apply Qlt_le_weak. exact Hlt.
  - left. apply (c06_edge_iff_proof cand ceqb ceqb_spec p fp Hp Hfp). repeat split; auto.
Qed.

Lemma noedge_iff_beats : forall a b, In a (cands p) -> In b (cands p) -> a <> b ->
  (edge es b a = false <-> beats (ballots p) a b).
Proof.
  intros a b Ha Hb Hab. unfold PairwiseSpec.beats. rewrite <- not_true_iff_false.
  unfold es. rewrite (c06_edge_iff_proof cand ceqb ceqb_spec p fp Hp Hfp). split.
  - intros Hno. apply Qnot_le_lt. intros Hle. apply Hno. repeat split; auto.
  - intros Hlt [_ [_ [_ Hle]]]. apply (Qlt_not_le _ _ Hlt). exact Hle.
Qed.

Lemma beats_irrefl : forall c, ~ beats (ballots p) c c.
Proof. intros c. unfold PairwiseSpec.beats. apply Qlt_irrefl. Qed.

Lemma tiers_fp_partition :
  Permutation (concat (tiers_of es cs)) (cands p) /\
  (forall T, In T (tiers_of es cs) -> T <> []) /\
  (forall T1 T2 c, earlier (tiers_of es cs) T1 T2 -> In c T1 -> In c T2 -> False).
Proof.
  split; [|split].
  - eapply Permutation_trans; [apply tiers_perm|]. exact (c06_fill_cands_proof cand ceqb ceqb_spec p fp Hp Hfp).
  - apply tiers_nonempty.
  - apply tiers_disjoint.
Qed.

Lemma tiers_fp_dominate : forall T1 T2 a b, earlier (tiers_of es cs) T1 T2 -> In a T1 -> In b T2 ->
  beats (ballots p) a b.
Proof.
  intros T1 T2 a b He Ha Hb.
  destruct (tiers_dominate_edges cand ceqb ceqb_spec es cs cs_NoDup es_semi T1 T2 a b He Ha Hb) as [Hab Hba].
  destruct (earlier_in _ _ _ He) as [HT1 HT2].
  pose proof (tiers_sub cand ceqb es cs T1 a HT1 Ha) as Hacs.
  pose proof (tiers_sub cand ceqb es cs T2 b HT2 Hb) as Hbcs.
  apply noedge_iff_beats; [apply cs_In; exact Hacs|apply cs_In; exact Hbcs| |exact Hba].
  intros ->. exact (tiers_disjoint cand ceqb es cs T1 T2 b He Ha Hb).
Qed.

Lemma tiers_fp_minimal : forall T T1 T2, In T (tiers_of es cs) ->
  (forall c, In c T <-> In c T1 \/ In c T2) -> T1 <> [] -> T2 <> [] ->
  (forall a b, In a T1 -> In b T2 -> beats (ballots p) a b) -> False.
Proof.
  intros T T1 T2 HT Hsplit H1 H2 Hbeat.
  destruct T1 as [|a1 T1']; [congruence|]. destruct T2 as [|b2 T2']; [congruence|].
  apply (tiers_minimal_edges cand ceqb ceqb_spec es cs cs_NoDup es_semi T (a1 :: T1') (b2 :: T2') a1 b2 HT Hsplit).
  - intros c Hc1 Hc2. exact (beats_irrefl c (Hbeat c c Hc1 Hc2)).
  - left. reflexivity.
  - left. reflexivity.
  - intros a b Ha Hb.
    assert (Hacs : In a (cands p)).
    { apply cs_In. apply (tiers_sub cand ceqb es cs T a HT). apply Hsplit. left. exact Ha. }
    assert (Hbcs : In b (cands p)).
    { apply cs_In. apply (tiers_sub cand ceqb es cs T b HT). apply Hsplit. right. exact Hb. }
    apply noedge_iff_beats; [exact Hacs|exact Hbcs| |apply Hbeat; assumption].
    intros ->. exact (beats_irrefl b (Hbeat b b Ha Hb)).
Qed.

Lemma tiers_fp_smith : forall T0 rest, tiers_of es cs = T0 :: rest ->
  dominating (ballots p) (cands p) T0 /\
  (forall D, D <> [] -> dominating (ballots p) (cands p) D -> incl T0 D).
Proof.
  intros T0 rest Heq.
  assert (HT0 : In T0 (tiers_of es cs)) by (rewrite Heq; left; reflexivity).
  split.
  - split.
    + intros c Hc. apply cs_In. exact (tiers_sub cand ceqb es cs T0 c HT0 Hc).
    + intros a b Ha Hb Hnb.
      destruct (top_dominates_edges cand ceqb ceqb_spec es cs cs_NoDup es_semi T0 rest a b Heq Ha) as [_ Hba];
        [apply cs_In; exact Hb|exact Hnb|].
      apply noedge_iff_beats; [apply cs_In; exact (tiers_sub cand ceqb es cs T0 a HT0 Ha)|exact Hb| |exact Hba].
      intros ->. contradiction.
  - intros D Hne [HD Hdom]. destruct D as [|d D']; [congruence|].
    apply (top_least_edges cand ceqb ceqb_spec es cs cs_NoDup es_semi T0 rest (d :: D') d Heq).
    + intros c Hc. apply cs_In. apply HD. exact Hc.
    + left. reflexivity.
    + intros a b Ha Hb Hnb. apply cs_In in Hb.
      apply noedge_iff_beats; [apply HD; exact Ha|exact Hb| |apply Hdom; assumption].
      intros ->. contradiction.
Qed.

Lemma cw_edges_iff : forall c, cw_edges cand ceqb es cs c <-> condorcet_winner (ballots p) (cands p) c.
Proof.
  intros c. unfold cw_edges, PairwiseSpec.condorcet_winner. rewrite cs_In. split.
  - intros [Hc Hcw]. split; [exact Hc|]. intros d Hd Hdc.
    apply noedge_iff_beats; [exact Hc|exact Hd|congruence|]. apply Hcw; [apply cs_In; exact Hd|exact Hdc].
  - intros [Hc Hcw]. split; [exact Hc|]. intros d Hd Hdc. apply cs_In in Hd.
    apply noedge_iff_beats; [exact Hc|exact Hd|congruence|]. apply Hcw; assumption.
Qed.

Lemma cs_nonempty : cs <> [].
Proof.
  destruct Hp as [_ [Hne Hall]]. destruct (ballots p) as [|x bs] eqn:Eb; [congruence|].
  inversion Hall as [|? ? Hx _]; subst. destruct Hx as [Hrk [Hs [_ [Hincl _]]]].
  assert (Hex : exists c, In c (listing cand x)).
  { unfold listing. destruct (rk x) as [|g r]; [congruence|]. inversion Hs as [|? ? Hg _]; subst.
    destruct g as [|c g]; [discriminate|]. exists c. rewrite flat_cons. left. reflexivity. }
  destruct Hex as [c Hc]. apply Hincl in Hc. apply cs_In in Hc. intros Hnil. rewrite Hnil in Hc. destruct Hc.
Qed.

End WithFill.

(* ---------- statements in terms of [dominating_tiers p] ---------- *)

Theorem c06_tiers_partition_proof : forall ts, dominating_tiers p = inl ts ->
  Permutation (concat ts) (cands p) /\
  (forall T, In T ts -> T <> []) /\
  (forall T1 T2 c, earlier ts T1 T2 -> In c T1 -> In c T2 -> False).
Proof.
  intros ts Ht. destruct (dominating_tiers_inv ts Ht) as [fp [Hfp ->]]. apply tiers_fp_partition. exact Hfp.
Qed.

Theorem c06_tiers_dominate_proof : forall ts T1 T2 a b, dominating_tiers p = inl ts ->
  earlier ts T1 T2 -> In a T1 -> In b T2 -> beats (ballots p) a b.
Proof.
  intros ts T1 T2 a b Ht. destruct (dominating_tiers_inv ts Ht) as [fp [Hfp ->]]. apply tiers_fp_dominate. exact Hfp.
Qed.

Theorem c06_tiers_minimal_proof : forall ts T T1 T2, dominating_tiers p = inl ts -> In T ts ->
  (forall c, In c T <-> In c T1 \/ In c T2) -> T1 <> [] -> T2 <> [] ->
  (forall a b, In a T1 -> In b T2 -> beats (ballots p) a b) -> False.
Proof.
  intros ts T T1 T2 Ht. destruct (dominating_tiers_inv ts Ht) as [fp [Hfp ->]]. apply tiers_fp_minimal. exact Hfp.
Qed.

Theorem c06_smith_proof : forall T0 rest, dominating_tiers p = inl (T0 :: rest) ->
  dominating (ballots p) (cands p) T0 /\
  (forall D, D <> [] -> dominating (ballots p) (cands p) D -> incl T0 D).
Proof.
  intros T0 rest Ht. destruct (dominating_tiers_inv _ Ht) as [fp [Hfp Heq]].
  apply (tiers_fp_smith fp Hfp T0 rest). symmetry. exact Heq.
Qed.

Theorem c06_tiers_top_exists_proof : exists T0 rest, dominating_tiers p = inl (T0 :: rest).
Proof.
  destruct (c06_fill_total_proof cand ceqb ceqb_spec p Hp) as [fp Hfp].
  destruct (tiers_top_exists cand ceqb (pairwise_entries (ballots fp) (cands fp)) (cands fp) (cs_nonempty fp Hfp))
    as [T0 [rest Heq]].
  exists T0, rest. rewrite (dominating_tiers_unfold fp Hfp), Heq. reflexivity.
Qed.

Theorem c06_condorcet_iff_proof :
  (has_condorcet_winner p = inl true <-> exists c, condorcet_winner (ballots p) (cands p) c) /\
  (has_condorcet_winner p = inl true \/ has_condorcet_winner p = inl false) /\
  (forall c, condorcet_winner (ballots p) (cands p) c ->
             exists rest, dominating_tiers p = inl ([c] :: rest)).
Proof.
  destruct c06_tiers_top_exists_proof as [T0 [rest Ht]].
  destruct (dominating_tiers_inv _ Ht) as [fp [Hfp Heq]]. symmetry in Heq.
  assert (Hcw : forall c, condorcet_winner (ballots p) (cands p) c -> T0 = [c]).
  { intros c Hc. apply (cw_edges_iff fp Hfp) in Hc.
    exact (top_of_cw cand ceqb ceqb_spec _ _ (cs_NoDup fp Hfp) (es_semi fp Hfp) T0 rest c Heq Hc). }
  assert (Hhas : has_condorcet_winner p = inl (Nat.eqb (length T0) 1)).
  { unfold Pairwise.has_condorcet_winner. rewrite Ht. reflexivity. }
  split; [|split].
  - rewrite Hhas. split.
    + intros H. injection H as H. apply Nat.eqb_eq in H.
      destruct T0 as [|c [|c' T0']]; try discriminate. exists c. apply (cw_edges_iff fp Hfp).
      exact (cw_of_top cand ceqb ceqb_spec _ _ (cs_NoDup fp Hfp) (es_semi fp Hfp) [c] rest c Heq eq_refl).
    + intros [c Hc]. rewrite (Hcw c Hc). reflexivity.
  - rewrite Hhas. destruct (Nat.eqb (length T0) 1); [left|right]; reflexivity.
  - intros c Hc. exists rest. rewrite Ht, (Hcw c Hc). reflexivity.
Qed.

End TiersOfProfile.

(* ------------------------------------------------------------------ *)
(** * DominatingSets and CondoBorda *)

Section RulesOfProfile.
Variable cand : Type.
Variable ceqb : cand -> cand -> bool.
Hypothesis ceqb_spec : forall a b, reflect (a = b) (ceqb a b).

Notation profile := (profile cand).
Notation ranking := (ranking cand).
Notation estate := (estate cand).
Notation mstate := (mstate cand).
Notation untied_profile := (untied_profile cand).
Notation dominating_tiers := (dominating_tiers cand ceqb).
Notation run_dominating := (run_dominating cand ceqb).
Notation run_condo := (run_condo cand ceqb).
Notation flat := (flat cand).
Notation singletons := (singletons cand).

Lemma ranking_validate_ok : forall p : profile, (forall b, In b (ballots p) -> rk b <> []) ->
  ranking_validate cand p = inl tt.
Proof.
  intros p. unfold ranking_validate. induction (ballots p) as [|b bs IH]; intros H; [reflexivity|].
  cbn [rfirst_err]. destruct (rk b) eqn:Er.
  - exfalso. apply (H b); [left; reflexivity|exact Er].
  - cbn [rbind]. apply IH. intros b' Hb'. apply H. right. exact Hb'.
Qed.

Lemma untied_ranking_validate : forall p, untied_profile p -> ranking_validate cand p = inl tt.
Proof.
  intros p [_ [_ Hall]]. apply ranking_validate_ok. intros b Hb.
  rewrite Forall_forall in Hall. apply (Hall b Hb).
Qed.

Lemma remove_cand_prof_ok : forall (p : profile) removed c l, NoDup (cands p) ->
  exists np, remove_cand_prof cand ceqb removed c l p = inl np.
Proof.
  intros p removed c l Hnd. unfold remove_cand_prof, mk_profile.
  assert (Hd : has_dup cand ceqb (set_diff cand ceqb (cands p) removed) = false).
  { apply (has_dup_false_iff cand ceqb ceqb_spec). apply (set_diff_NoDup cand ceqb). exact Hnd. }
  rewrite Hd. eexists. reflexivity.
Qed.

Theorem c06_dominating_proof : forall p (s : mstate), untied_profile p ->
  exists top rest, dominating_tiers p = inl (top :: rest) /\
    run_dominating p s =
      inl ([all_tied_state cand p; mkState 1 rest [top] (no_group cand) [] []], s).
Proof.
  intros p s Hp. destruct (c06_tiers_top_exists_proof cand ceqb ceqb_spec p Hp) as [top [rest Ht]].
  exists top, rest. split; [exact Ht|].
  unfold Rules.run_dominating, mbind, mlift. rewrite (untied_ranking_validate p Hp), Ht.
  destruct (remove_cand_prof_ok p top true false (proj1 Hp)) as [np Hnp]. unfold ok. cbv beta iota. rewrite Hnp. reflexivity.
Qed.

(* CondoBorda: a successful run (valid script) has the shape described in the property *)
Theorem c06_condoborda_proof : forall m p (s s' : mstate) sts, untied_profile p ->
  run_condo m p s = inl (sts, s') ->
  exists ts d0 s1,
    dominating_tiers p = inl ts /\ borda_scores cand ceqb p = inl d0 /\
    sts = [state_of_scores cand 0 (no_group cand) (no_group cand) [] d0; s1] /\
    rnd s1 = 1%Z /\ eliminated s1 = no_group cand /\
    (1 <= m <= Z.of_nat (length (cands p)))%Z /\
    Z.of_nat (length (flat (elected s1))) = m /\
    Permutation (flat (elected s1) ++ flat (remaining s1)) (cands p) /\
    ((tiebreaks s1 = [] /\ s' = s /\ elected s1 ++ remaining s1 = ts)
     \/
     (exists pre g post l k,
        ts = pre ++ g :: post /\ (0 < k < length g)%nat /\ Z.of_nat (k + length (flat pre)) = m /\
        Permutation l g /\
        elected s1 = pre ++ singletons (firstn k l) /\
        remaining s1 = singletons (skipn k l) ++ post /\
        tiebreaks s1 = [(g, singletons l)] /\
        (forall x a y b z qa qb, l = x ++ a :: y ++ b :: z ->
           In (a, qa) d0 -> In (b, qb) d0 -> qb <= qa))).
Proof.
  intros m p s s' sts Hp H. unfold Rules.run_condo, mbind, mlift in H.
  rewrite (untied_ranking_validate p Hp) in H. unfold ok in H. cbv beta iota in H.
  destruct (round0 cand ceqb SKBorda p) as [s0|e] eqn:H0; [|discriminate].
  destruct (condo_step cand ceqb m p s) as [[[np s1] s2]|e] eqn:Hc; [|discriminate].
  unfold mret, ok in H. injection H as <- <-.
  unfold round0, score_fn, rbind in H0.
  destruct (borda_scores cand ceqb p) as [d0|e] eqn:Hb; [|discriminate]. unfold ok in H0. injection H0 as <-.
  unfold condo_step, mbind, mlift in Hc.
  destruct (dominating_tiers p) as [ts|e] eqn:Ht; [|discriminate]. unfold ok in Hc. cbv beta iota in Hc.
  destruct (elect_top_m cand ceqb ts m (Some p) (Some TBBorda) s) as [[[[el rem] tbi] s3]|e] eqn:He; [|discriminate].
  destruct (remove_cand_prof cand ceqb (flat el) true false p) as [np'|e]; [|discriminate].
  destruct (borda_scores cand ceqb np') as [d1|e]; [|discriminate].
  unfold mret, ok in Hc. injection Hc as <- <- <-.
  destruct (c06_tiers_partition_proof cand ceqb ceqb_spec p Hp ts Ht) as [Hperm [Hne Hdisj]].
  assert (Hflat : Permutation (flat ts) (cands p)) by exact Hperm.
  assert (Hnd : NoDup (flat ts)).
  { eapply Permutation_NoDup; [apply Permutation_sym; exact Hflat|apply Hp]. }
  assert (Hok : tb_profile_ok cand (Some p) (Some TBBorda) (flat ts)).
  { cbn [tb_profile_ok]. intros pr Hpr. injection Hpr as <-. split; [apply Hp|].
    intros c Hc. eapply Permutation_in; [exact Hflat|exact Hc]. }
  assert (Hne' : Forall (fun g => g <> []) ts) by (apply Forall_forall; exact Hne).
  destruct (elect_top_m_count_perm cand ceqb ceqb_spec ts m (Some p) (Some TBBorda) s s3 el rem tbi Hnd Hne' Hok He)
    as [Hcount [Hpart Hlin]].
  destruct (elect_top_m_shape cand ceqb ts m (Some p) (Some TBBorda) s s3 el rem tbi He) as [Hrange Hshape].
  exists ts, d0. eexists. split; [reflexivity|]. split; [reflexivity|]. split; [reflexivity|].
  cbn [rnd eliminated elected remaining tiebreaks].
  split; [reflexivity|]. split; [reflexivity|].
  split; [rewrite <- (Permutation_length Hflat); exact Hrange|].
  split; [exact Hcount|].
  split; [eapply Permutation_trans; [exact Hpart|exact Hflat]|].
  destruct Hshape as [[-> [-> [Hr _]]]|Hshape].
  - left. repeat split. exact Hr.
  - right. destruct Hshape as [pre [g [post [t [kind [k [Hkind [Hr [Hk [Hk0 [Hkg [Htb [Hel [Hrem Htbi]]]]]]]]]]]]]].
    injection Hkind as <-.
    destruct (Hlin g t Htbi) as [l [Htl Hpl]].
    exists pre, g, post, l, k. rewrite Htbi. subst t.
    rewrite firstn_singletons in Hel. rewrite skipn_singletons in Hrem.
    repeat split; try assumption.
    intros x a y b z qa qb Hl Ha Hbq.
    apply (tiebreak_set_order cand ceqb ceqb_spec g p TBBorda s s3 (singletons l) d0
             (or_intror (conj eq_refl Hb)) (proj1 Hp) Htb l x a y b z qa qb eq_refl Hl Ha Hbq).
Qed.

End RulesOfProfile.
