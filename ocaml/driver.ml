(* driver.ml — reads one case per line "<op> <value>", calls the extracted Model.dispatch,
   prints one result line per case.  Numbers travel as binary strings so that the extracted
   inductive positive/Z are used as they are (no OCaml int, no bignum library).
   Value syntax:  z0 | z+1011 | z-11 | q+11/101 | t | f | n | e<code> | (l v ...) | (s v ...) *)
open Model

let pos_of_bits (s : string) (i0 : int) (i1 : int) : positive =
  (* s.[i0] is the most significant bit and must be '1' *)
  let p = ref XH in
  for i = i0 + 1 to i1 - 1 do
    p := if s.[i] = '1' then XI !p else XO !p
  done;
  !p

let rec bits_of_pos (p : positive) (acc : char list) : char list =
  match p with
  | XH -> '1' :: acc
  | XO p' -> bits_of_pos p' ('0' :: acc)
  | XI p' -> bits_of_pos p' ('1' :: acc)

let string_of_pos p =
  let l = bits_of_pos p [] in
  let b = Buffer.create 16 in
  List.iter (Buffer.add_char b) l;
  Buffer.contents b

let z_of_token (s : string) (i0 : int) (i1 : int) : z =
  (* s.[i0] is '0', '+' or '-' *)
  match s.[i0] with
  | '0' -> Z0
  | '+' -> Zpos (pos_of_bits s (i0 + 1) i1)
  | '-' -> Zneg (pos_of_bits s (i0 + 1) i1)
  | _ -> failwith "bad z"

let string_of_z = function
  | Z0 -> "0"
  | Zpos p -> "+" ^ string_of_pos p
  | Zneg p -> "-" ^ string_of_pos p

let code_of_exn e = match e with
  | EType -> 1 | EValue -> 2 | EIndex -> 3 | EKey -> 4 | EAttr -> 5 | EUnbound -> 6
  | EZeroDiv -> 7 | EData -> 8 | ENotFound -> 9 | EEmptyData -> 10 | EFuel -> 11
  | EScript -> 12 | EOther -> 13

let exn_of_code n = match n with
  | 1 -> EType | 2 -> EValue | 3 -> EIndex | 4 -> EKey | 5 -> EAttr | 6 -> EUnbound
  | 7 -> EZeroDiv | 8 -> EData | 9 -> ENotFound | 10 -> EEmptyData | 11 -> EFuel
  | 12 -> EScript | _ -> EOther

(* tokenizer: parens are their own tokens, everything else splits on blanks *)
let tokenize (s : string) : string list =
  let toks = ref [] in
  let n = String.length s in
  let i = ref 0 in
  while !i < n do
    let c = s.[!i] in
    if c = ' ' || c = '\t' then incr i
    else if c = '(' || c = ')' then (toks := String.make 1 c :: !toks; incr i)
    else begin
      let j = ref !i in
      while !j < n && (let d = s.[!j] in d <> ' ' && d <> '\t' && d <> '(' && d <> ')') do incr j done;
      toks := String.sub s !i (!j - !i) :: !toks;
      i := !j
    end
  done;
  List.rev !toks

let rec parse (toks : string list) : val0 * string list =
  match toks with
  | [] -> failwith "eof"
  | "(" :: kind :: rest ->
      let rec items acc ts =
        match ts with
        | ")" :: ts' -> (List.rev acc, ts')
        | _ -> let (v, ts') = parse ts in items (v :: acc) ts'
      in
      let (vs, rest') = items [] rest in
      ((if kind = "l" then VL vs else VS vs), rest')
  | t :: rest ->
      let n = String.length t in
      let v =
        match t.[0] with
        | 'z' -> VZ (z_of_token t 1 n)
        | 'q' ->
            let k = String.index t '/' in
            VQ { qnum = z_of_token t 1 k; qden = pos_of_bits t (k + 1) n }
        | 't' -> VB true
        | 'f' -> VB false
        | 'n' -> VN
        | 'e' -> VE (exn_of_code (int_of_string (String.sub t 1 (n - 1))))
        | _ -> failwith ("bad token " ^ t)
      in
      (v, rest)

let rec print (b : Buffer.t) (v : val0) : unit =
  match v with
  | VZ z -> Buffer.add_char b 'z'; Buffer.add_string b (string_of_z z)
  | VQ q -> Buffer.add_char b 'q'; Buffer.add_string b (string_of_z q.qnum);
            Buffer.add_char b '/'; Buffer.add_string b (string_of_pos q.qden)
  | VB true -> Buffer.add_char b 't'
  | VB false -> Buffer.add_char b 'f'
  | VN -> Buffer.add_char b 'n'
  | VE e -> Buffer.add_char b 'e'; Buffer.add_string b (string_of_int (code_of_exn e))
  | VL l -> Buffer.add_string b "(l"; List.iter (fun x -> Buffer.add_char b ' '; print b x) l;
            Buffer.add_char b ')'
  | VS l -> Buffer.add_string b "(s"; List.iter (fun x -> Buffer.add_char b ' '; print b x) l;
            Buffer.add_char b ')'

let () =
  let b = Buffer.create 4096 in
  (try
     while true do
       let line = input_line stdin in
       if String.length line > 0 then begin
         let toks = tokenize line in
         (match toks with
          | opt :: rest ->
              let op = z_of_token opt 1 (String.length opt) in
              let (v, _) = parse rest in
              Buffer.clear b;
              (try print b (dispatch op v)
               with Stack_overflow -> Buffer.clear b; Buffer.add_string b "!stack_overflow"
                  | Failure m -> Buffer.clear b; Buffer.add_string b ("!failure " ^ m));
              print_string (Buffer.contents b);
              print_newline ()
          | [] -> ())
       end
     done
   with End_of_file -> ())
